(* C12: the laminar subspace of the 3D Kolmogorov flow.  A velocity field (u_0(x_1), 0, 0) - spectrum of channel 0 supported on the axis
   k = (0, j, 0), channels 1 and 2 zero - is annihilated by the projected rotational convection: u x curl u = (0, u_0 d_1 u_0, 0) is the
   gradient of u_0^2 / 2 and the Leray projection removes it (its mean vanishes by antisymmetry).  Hence the stepper is LINEAR on that
   subspace and the forced solution is the closed form of ETDRK/Forcing.v. *)
From Coq Require Import ZArith QArith List Bool Field Ring Lia Permutation.
From EXV Require Import Base.Scalar Base.FieldLemmas Spectral.Symbols Layout.Freq Nonlin.Conv Nonlin.ConvProofs Nonlin.Terms Nonlin.MeanFree.
Import ListNotations.

Section Laminar3D.
  Variable F : FieldT.
  Add Field Ffl3 : (fth F).
  Local Open Scope fld_scope.
  Variables (N Kc : Z) (ii s : F).
  Hypothesis N_pos : (0 < N)%Z.
  Hypothesis K_nonneg : (0 <= Kc)%Z.
  Hypothesis K_small : (2 * Kc < N)%Z.
  Hypothesis ii_nz : ii <> 0.
  Hypothesis s_nz : s <> 0.
  Notation P2 := (prod2 F 3 N Kc).
  Notation d := (dc F ii s).

  Definition off_axis (k : idx) : Prop := nth 0 k 0%Z <> 0%Z \/ nth 2 k 0%Z <> 0%Z.
  Definition supp (U : field F) : Prop := forall k, off_axis k -> U k = 0.

  Lemma off_axis_dec k : {off_axis k} + {nth 0 k 0%Z = 0%Z /\ nth 2 k 0%Z = 0%Z}.
  Proof. unfold off_axis. destruct (Z.eq_dec (nth 0 k 0%Z) 0), (Z.eq_dec (nth 2 k 0%Z) 0); auto. Qed.

  (* the product of two axis-supported spectra is axis-supported *)
  Lemma prod2_supp U V k : supp U -> supp V -> length k = 3%nat -> off_axis k -> P2 U V k = 0.
  Proof.
    intros HU HV Hl Hoff. unfold prod2, msk at 1. destruct (in_band Kc k) eqn:Hb; [|reflexivity].
    unfold cconv2. rewrite (fsum_map_ext F _ _ (fun _ => 0)); [rewrite fsum_map_zero; ring|].
    intros m Hm. apply (in_bandD 3 Kc m K_nonneg) in Hm. destruct Hm as [Hlm Hbm].
    destruct (off_axis_dec m) as [Hom|[Hm0 Hm2]].
    - unfold msk at 1. rewrite Hbm, (HU m Hom). ring.
    - assert (Hx : off_axis (wrapD N (subi k m))).
      { destruct k as [|k0 [|k1 [|k2 [|]]]]; try discriminate. destruct m as [|m0 [|m1 [|m2 [|]]]]; try discriminate.
        cbn [nth] in *. subst m0 m2. unfold off_axis, wrapD, subi. cbn [map2 map nth].
        cbn [in_band forallb] in Hb. rewrite !andb_true_iff in Hb. destruct Hb as (Hb0 & Hb1 & Hb2 & _).
        apply Z.leb_le in Hb0, Hb2.
        rewrite !Z.sub_0_r, !wrap1_small by lia. exact Hoff. }
      unfold msk at 2. destruct (in_band Kc (wrapD N (subi k m))); [rewrite (HV _ Hx)|]; ring.
  Qed.

  Lemma prod2_neg_r (U V V' : field F) k : (forall x, V x = - (1) * V' x) -> P2 U V k = - (1) * P2 U V' k.
  Proof.
    intros HV.
    assert (Hc : cconv2 F 3 N Kc U V k = - (1) * cconv2 F 3 N Kc U V' k).
    { unfold cconv2. rewrite <- fsum_map_scal. apply fsum_map_ext. intros m _. unfold msk.
      destruct (in_band Kc m), (in_band Kc (wrapD N (subi k m))); rewrite ?HV; ring. }
    unfold prod2, msk. destruct (in_band Kc k); [rewrite Hc|]; ring.
  Qed.

  Variable u0 : field F.
  Hypothesis u0_supp : supp u0.

  Lemma d0_on_axis k : nth 0 k 0%Z = 0%Z -> d 0 k = 0.
  Proof. intros H. unfold dc. rewrite H. cbn [fz]. ring. Qed.
  Lemma d2_on_axis k : nth 2 k 0%Z = 0%Z -> d 2 k = 0.
  Proof. intros H. unfold dc. rewrite H. cbn [fz]. ring. Qed.

  Lemma supp_mul (p U : field F) : supp U -> supp (fmulp F p U).
  Proof. intros H k Hk. unfold fmulp. rewrite (H k Hk). ring. Qed.

  (* the only non-zero component of u x curl u *)
  Definition c1 : field F := P2 u0 (fmulp F (d 1) u0).

  Lemma c1_supp k : length k = 3%nat -> off_axis k -> c1 k = 0.
  Proof. intros Hl Hk. apply prod2_supp; [exact u0_supp | apply supp_mul; exact u0_supp | exact Hl | exact Hk]. Qed.

  Lemma c1_mean : c1 (zeros 3) = 0.
  Proof.
    unfold c1. rewrite (prod2_zero_mode F 3 N Kc N_pos K_nonneg K_small).
    rewrite (odd_sum_zero F 3 Kc K_nonneg); [ring|].
    intros m _. rewrite negi_invol. unfold msk, fmulp. rewrite !in_band_negi. destruct (in_band Kc m); [|ring].
    rewrite dc_negi. ring.
  Qed.

  Lemma cross_laminar k :
    let c := cross F P2 [u0; fzero F; fzero F] (curl F ii s [u0; fzero F; fzero F]) in
    nth 0 c (fzero F) k = 0 /\ nth 1 c (fzero F) k = c1 k /\ nth 2 c (fzero F) k = 0.
  Proof.
    cbv zeta. unfold curl, cross. cbn [nth]. unfold fadd, fscal. split; [|split].
    - rewrite !(prod2_zero_l F 3 N Kc (fzero F)) by reflexivity. ring.
    - rewrite (prod2_zero_l F 3 N Kc (fzero F)) by reflexivity. unfold c1.
      (* omega_2 = d_0 0 - d_1 u_0 = - d_1 u_0; prod2 is linear in its second argument *)
      rewrite (prod2_neg_r u0 (fun k0 => fmulp F (d 0) (fzero F) k0 + - (1) * fmulp F (d 1) u0 k0) (fmulp F (d 1) u0)).
      + ring.
      + intros x. unfold fmulp, fzero. ring.
    - rewrite (prod2_zero_l F 3 N Kc (fzero F)) by reflexivity.
      rewrite (prod2_zero_r F 3 N Kc u0).
      + ring.
      + intros x. unfold fmulp, fzero. destruct (off_axis_dec x) as [Hx|[_ Hx2]]; [rewrite (u0_supp x Hx) | rewrite (d2_on_axis x Hx2)]; ring.
  Qed.

  (* the projected rotational convection vanishes identically on the laminar subspace *)
  Theorem projected_conv_laminar (i : nat) (k : idx) : (i < 3)%nat -> length k = 3%nat ->
    nth i (projected_conv F P2 ii s 3 [u0; fzero F; fzero F]) (fzero F) k = 0.
  Proof.
    intros Hi Hl. unfold projected_conv.
    pose proof (cross_laminar k) as Hc. cbv zeta in Hc.
    set (c := cross F P2 [u0; fzero F; fzero F] (curl F ii s [u0; fzero F; fzero F])) in *.
    assert (Hcs : exists a0 a1 a2, c = [a0; a1; a2]) by (unfold c, cross; eauto).
    destruct Hcs as (a0 & a1 & a2 & Ec). rewrite Ec in *. cbn [nth] in Hc. destruct Hc as (H0 & H1 & H2).
    unfold leray, axes. cbv zeta. cbn [seq map2].
    set (div := fsumf F [fmulp F (d 0) a0; fmulp F (d 1) a1; fmulp F (d 2) a2]).
    assert (Hdiv : div k = d 1 k * c1 k).
    { unfold div, fsumf, fmulp. cbn [map fsum]. rewrite H0, H1, H2. ring. }
    assert (Hp : fscal F (- (1)) (fmulp F (inv_lap_zero F ii s 3) div) k = - (inv_lap_zero F ii s 3 k * (d 1 k * c1 k))).
    { unfold fscal, fmulp. rewrite Hdiv. ring. }
    destruct (off_axis_dec k) as [Hoff|[Hk0 Hk2]].
    - (* off the axis everything vanishes *)
      pose proof (c1_supp k Hl Hoff) as Hz.
      destruct i as [|[|[|i]]]; [| | | lia]; cbn [nth]; unfold fadd, fmulp at 1; rewrite Hp, Hz, ?H0, ?H1, ?H2, ?Hz; ring.
    - destruct i as [|[|[|i]]]; [| | | lia]; cbn [nth]; unfold fadd, fmulp at 1; rewrite Hp.
      + rewrite H0, (d0_on_axis k Hk0). ring.
      + rewrite H1. destruct (Z.eq_dec (nth 1 k 0%Z) 0) as [Hk1|Hk1].
        * assert (Ek : k = zeros 3).
          { destruct k as [|k0 [|k1 [|k2 [|]]]]; try discriminate. cbn [nth] in *. subst. reflexivity. }
          rewrite Ek, c1_mean. ring.
        * assert (Hlap : lap F ii s 3 k = d 1 k * d 1 k).
          { unfold lap, axes. cbn [seq map fsum]. rewrite (d0_on_axis k Hk0), (d2_on_axis k Hk2). ring. }
          assert (Hd1 : d 1 k <> 0).
          { unfold dc. intros E. apply (fmul_eq0 F) in E. destruct E as [E|E]; [contradiction|].
            apply (fmul_eq0 F) in E. destruct E as [E|E]; [contradiction|]. revert E. apply fz_neq0. exact Hk1. }
          unfold inv_lap_zero. rewrite Hlap.
          destruct (oeqb (d 1 k * d 1 k) 0) eqn:E.
          { apply (feqb_ok F) in E. apply (fmul_eq0 F) in E. destruct E; contradiction. }
          field. exact Hd1.
      + rewrite H2, (d2_on_axis k Hk2). ring.
  Qed.
End Laminar3D.
