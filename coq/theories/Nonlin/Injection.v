(* Kolmogorov forcing terms (nonlin_fun/_vorticity_convection.py VorticityConvection2dKolmogorov.injection,
   nonlin_fun/_projected_convection.py ProjectedConvection3dKolmogorov.injection), per signed wavenumber vector k.
   The coef_extraction scaling at a mode is N per axis with k_c = 0 (or Nyquist) and N/2 per other axis. *)
From Coq Require Import ZArith QArith List Bool Lia ZifyBool Field Ring.
From EXV Require Import Base.Scalar Base.FieldLemmas Layout.Freq.
Ltac Zify.zify_post_hook ::= Z.to_euclidean_division_equations.
Import ListNotations.
Local Open Scope fld_scope.

Section Injection.
  Variable K : Ops.
  Definition ax_scale (N kc : Z) (last : bool) : K :=
    if axis_plain N kc last then fz N else fz N / fz 2.
  (* 2D vorticity: mask (k_0 = 0) & (k_1 = kinj); value -imag(d_1) * gamma * scaling, d_1 = i s k_1 *)
  Definition injection2d (s gamma : K) (N kinj : Z) (k : list Z) : K :=
    if (nth 0 k 0 =? 0)%Z && (nth 1 k 0 =? kinj)%Z
    then - (s * fz (nth 1 k 0%Z)) * gamma * (ax_scale N (nth 0 k 0%Z) false * ax_scale N (nth 1 k 0%Z) true)
    else 0.
  (* 3D velocity, channel 0: mask (k_0 = 0) & (|k_1| = kinj) & (k_2 = 0); value -i sign(k_1) gamma * scaling; channels 1, 2: 0 *)
  Definition sgn (z : Z) : K := match z with Z0 => 0 | Zpos _ => 1 | Zneg _ => - (1) end.
  Definition injection3d (ii gamma : K) (N kinj : Z) (channel : nat) (k : list Z) : K :=
    match channel with
    | O => if (nth 0 k 0 =? 0)%Z && (Z.abs (nth 1 k 0) =? kinj)%Z && (nth 2 k 0 =? 0)%Z
           then - ii * sgn (nth 1 k 0%Z) * gamma
                * (ax_scale N (nth 0 k 0%Z) false * ax_scale N (nth 1 k 0%Z) false * ax_scale N (nth 2 k 0%Z) true)
           else 0
    | _ => 0
    end.
End Injection.

Section InjectionProofs.
  Variable F : FieldT.
  Add Field Ff : (fth F).
  Variables (ii s gamma : F) (N kinj : Z).
  Hypothesis Hk : (0 < kinj)%Z /\ (2 * kinj < N)%Z.

  Lemma plain_inj b : axis_plain N kinj b = false /\ axis_plain N (- kinj) b = false /\ axis_plain N 0 b = true.
  Proof.
    unfold axis_plain. destruct Hk as [H1 H2]. destruct (Z.even N) eqn:En.
    - apply Z.even_spec in En. destruct En as [c Hc]. destruct b; cbn [andb]; repeat split; lia.
    - destruct b; cbn [andb]; repeat split; lia.
  Qed.

  Definition NN : F := fz N.
  (* 2D: exactly the stored mode (0, kinj) carries N^2/2 * a with a = -kappa*gamma (kappa = s*kinj):
     the rfftn of a*cos(kappa x_1) (C04_single_mode: a cosine puts n*a/2 on the stored character) *)
  Theorem injection2d_spec (k : list Z) :
    injection2d F s gamma N kinj k
    = if ((nth 0 k 0 =? 0) && (nth 1 k 0 =? kinj))%Z then NN * (NN / fz 2) * (- (s * fz kinj) * gamma) else 0.
  Proof.
    unfold injection2d. destruct ((nth 0 k 0 =? 0)%Z && (nth 1 k 0 =? kinj)%Z) eqn:E; [|reflexivity].
    apply andb_true_iff in E. destruct E as [E0 E1]. apply Z.eqb_eq in E0, E1. rewrite E0, E1.
    unfold ax_scale. destruct (plain_inj true) as (P1 & _ & _). destruct (plain_inj false) as (_ & _ & P0).
    rewrite P1, P0. unfold NN. ring.
  Qed.

  (* 3D: channel 0 carries N^3/2 * (-i gamma) at (0, +kinj, 0) and N^3/2 * (+i gamma) at (0, -kinj, 0):
     the transform of gamma*sin(kappa x_1) = gamma (e^{i theta} - e^{-i theta})/(2i); the other channels are not forced *)
  Theorem injection3d_spec (k : list Z) (ch : nat) :
    injection3d F ii gamma N kinj ch k
    = match ch with
      | O => if ((nth 0 k 0 =? 0) && (nth 1 k 0 =? kinj) && (nth 2 k 0 =? 0))%Z then NN * (NN / fz 2) * NN * (- ii * gamma)
             else if ((nth 0 k 0 =? 0) && (nth 1 k 0 =? - kinj) && (nth 2 k 0 =? 0))%Z then NN * (NN / fz 2) * NN * (ii * gamma)
             else 0
      | _ => 0
      end.
  Proof.
    destruct ch as [|ch]; [|reflexivity]. unfold injection3d. destruct Hk as [H1 H2].
    destruct (nth 0 k 0 =? 0)%Z eqn:E0; cbn [andb]; [|reflexivity].
    destruct (nth 2 k 0 =? 0)%Z eqn:E2; rewrite ?andb_false_r; cbn [andb]; [|reflexivity].
    apply Z.eqb_eq in E0, E2. rewrite E0, E2. rewrite !andb_true_r.
    destruct (plain_inj false) as (Pp & Pm & P0). destruct (plain_inj true) as (_ & _ & P0').
    destruct (Z.eqb_spec (nth 1 k 0%Z) kinj) as [Ea|Ea].
    - rewrite Ea. replace (Z.abs kinj =? kinj)%Z with true by lia. unfold ax_scale. rewrite Pp, P0, P0'.
      destruct kinj; try lia. cbn [sgn]. unfold NN. ring.
    - destruct (Z.eqb_spec (nth 1 k 0%Z) (- kinj)) as [Eb|Eb].
      + rewrite Eb. replace (Z.abs (- kinj) =? kinj)%Z with true by lia. unfold ax_scale. rewrite Pm, P0, P0'.
        destruct kinj; try lia. cbn [Z.opp sgn]. unfold NN. ring.
      + replace (Z.abs (nth 1 k 0) =? kinj)%Z with false by lia. reflexivity.
  Qed.
End InjectionProofs.
