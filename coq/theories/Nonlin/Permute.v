(* C08: axis permutations.  sigma = permi p re-labels the components of a wavenumber vector by a permutation p of the axes; the retained
   band, the wrap-around and the differences are component-wise, so the pseudo-spectral product commutes with sigma, and the isotropic scalar
   terms (sums over all axes) are invariant: the term of the permuted field is the permuted term - for every D, N, band, state. *)
From Coq Require Import ZArith QArith List Bool Field Ring Lia Permutation.
From EXV Require Import Base.Scalar Base.FieldLemmas Spectral.Symbols Layout.Freq Nonlin.Conv Nonlin.ConvProofs Nonlin.Terms Nonlin.MeanFree Nonlin.Energy.
Import ListNotations.

Definition permi (p : list nat) (k : idx) : idx := map (fun c => nth c k 0%Z) p.

Lemma nth_map_default {A B} (g : A -> B) (l : list A) (d : B) (a : A) i : (i < length l)%nat -> nth i (map g l) d = g (nth i l a).
Proof. intros H. rewrite (nth_indep _ d (g a)) by (rewrite map_length; exact H). apply map_nth. Qed.

Lemma subi_length (a b : idx) : length a = length b -> length (subi a b) = length a.
Proof. unfold subi. revert b. induction a as [|x a IH]; intros [|y b] H; cbn in *; try lia. f_equal. apply IH. lia. Qed.

Section PermIndex.
  Variable D : nat.
  Variable p : list nat.
  Hypothesis p_perm : Permutation p (seq 0 D).

  Lemma p_length : length p = D.
  Proof. rewrite (Permutation_length p_perm). apply seq_length. Qed.
  Lemma p_lt c : In c p -> (c < D)%nat.
  Proof. intros H. apply (Permutation_in _ p_perm) in H. apply in_seq in H. lia. Qed.
  Lemma p_all c : (c < D)%nat -> In c p.
  Proof. intros H. apply (Permutation_in _ (Permutation_sym p_perm)). apply in_seq. lia. Qed.

  Lemma permi_length k : length (permi p k) = D.
  Proof. unfold permi. rewrite map_length. apply p_length. Qed.

  Lemma self_map (k : idx) : length k = D -> map (fun c => nth c k 0%Z) (seq 0 D) = k.
  Proof.
    intros Hl. apply (nth_ext _ _ 0%Z 0%Z); [rewrite map_length, seq_length; lia|].
    intros i Hi. rewrite map_length, seq_length in Hi.
    rewrite (nth_map_default _ _ _ 0%nat) by (rewrite seq_length; exact Hi). rewrite seq_nth by exact Hi. reflexivity.
  Qed.

  (* the permuted vector has the same entries *)
  Lemma permi_perm k : length k = D -> Permutation (permi p k) k.
  Proof. intros Hl. rewrite <- (self_map k Hl) at 2. unfold permi. apply Permutation_map. exact p_perm. Qed.

  Lemma forallb_permi (f : Z -> bool) k : length k = D -> forallb f (permi p k) = forallb f k.
  Proof.
    intros Hl. pose proof (permi_perm k Hl) as HP.
    destruct (forallb f k) eqn:E.
    - rewrite forallb_forall in *. intros x Hx. apply E. apply (Permutation_in _ HP). exact Hx.
    - destruct (forallb f (permi p k)) eqn:E2; [|reflexivity]. rewrite forallb_forall in E2.
      assert (forallb f k = true); [|congruence].
      apply forallb_forall. intros x Hx. apply E2. apply (Permutation_in _ (Permutation_sym HP)). exact Hx.
  Qed.
  Lemma in_band_permi Kc k : length k = D -> in_band Kc (permi p k) = in_band Kc k.
  Proof. apply forallb_permi. Qed.
  Lemma is_zero_permi k : length k = D -> is_zero (permi p k) = is_zero k.
  Proof. apply forallb_permi. Qed.

  Lemma nth_permi c k : (c < D)%nat -> nth c (permi p k) 0%Z = nth (nth c p 0%nat) k 0%Z.
  Proof.
    intros Hc. unfold permi. rewrite (nth_map_default (fun c0 => nth c0 k 0%Z) p 0%Z 0%nat c) by (rewrite p_length; exact Hc). reflexivity.
  Qed.

  Lemma permi_map (f : Z -> Z) k : f 0%Z = 0%Z -> permi p (map f k) = map f (permi p k).
  Proof.
    intros Hf. unfold permi. rewrite map_map. apply map_ext. intros c.
    destruct (Nat.lt_ge_cases c (length k)) as [H|H].
    - rewrite (nth_map_default f k 0%Z 0%Z c H). reflexivity.
    - rewrite !nth_overflow by (rewrite ?map_length; lia). symmetry. exact Hf.
  Qed.

  Lemma permi_subi a b : length a = length b -> permi p (subi a b) = subi (permi p a) (permi p b).
  Proof.
    intros Hl. unfold permi, subi.
    assert (Hn : forall c, nth c (map2 Z.sub a b) 0%Z = (nth c a 0 - nth c b 0)%Z).
    { revert b Hl. induction a as [|x a IH]; intros [|y b] Hl c; cbn in *; try discriminate; [destruct c; reflexivity|].
      destruct c as [|c]; [reflexivity | apply IH; lia]. }
    generalize p as q. induction q as [|c q IHq]; cbn [map map2]; [reflexivity|]. rewrite Hn. f_equal. exact IHq.
  Qed.

  Lemma permi_inj a b : length a = D -> length b = D -> permi p a = permi p b -> a = b.
  Proof.
    intros Ha Hb E. apply (nth_ext _ _ 0%Z 0%Z); [lia|]. intros c Hc. rewrite Ha in Hc.
    pose proof (p_all c Hc) as Hin. apply In_nth with (d := 0%nat) in Hin. destruct Hin as (i & Hi & Ei).
    rewrite p_length in Hi. rewrite <- Ei, <- !(nth_permi i) by exact Hi. rewrite E. reflexivity.
  Qed.

  (* the band is mapped onto itself *)
  Lemma band_permuted Kc : (0 <= Kc)%Z -> Permutation (map (permi p) (bandD D Kc)) (bandD D Kc).
  Proof.
    intros HK. apply NoDup_Permutation_bis.
    - apply NoDup_map_in; [|apply NoDup_bandD]. intros x y Hx Hy. apply (in_bandD D Kc _ HK) in Hx, Hy. apply permi_inj; tauto.
    - rewrite map_length. lia.
    - intros x Hx. apply in_map_iff in Hx. destruct Hx as (m & <- & Hm). apply (in_bandD D Kc _ HK) in Hm. destruct Hm as [Hl Hb].
      apply (in_bandD D Kc _ HK). split; [apply permi_length | rewrite in_band_permi; assumption].
  Qed.
End PermIndex.

Section PermProducts.
  Variable F : FieldT.
  Add Field Ffpp : (fth F).
  Local Open Scope fld_scope.
  Variables (D : nat) (N Kc : Z).
  Hypothesis N_pos : (0 < N)%Z.
  Hypothesis K_nonneg : (0 <= Kc)%Z.
  Variable p : list nat.
  Hypothesis p_perm : Permutation p (seq 0 D).
  Notation sigma := (permi p).

  Definition relabel (U : field F) : field F := fun k => U (sigma k).

  Lemma wrap1_0 : wrap1 N 0 = 0%Z.
  Proof. apply wrap1_small; lia. Qed.

  Lemma prod2_unfold (U V : field F) k : prod2 F D N Kc U V k = if in_band Kc k then nfac F D N * cconv2 F D N Kc U V k else 0.
  Proof. reflexivity. Qed.

  (* the pseudo-spectral product of the re-labelled spectra is the re-labelled product *)
  Theorem prod2_relabel (U V : field F) k : length k = D -> prod2 F D N Kc (relabel U) (relabel V) k = prod2 F D N Kc U V (sigma k).
  Proof.
    intros Hl. rewrite !prod2_unfold. rewrite (in_band_permi D p p_perm Kc k Hl). destruct (in_band Kc k); [|reflexivity]. f_equal.
    unfold cconv2.
    rewrite <- (fsum_perm F (fun m => msk F Kc U m * msk F Kc V (wrapD N (subi (sigma k) m))) _ _ (band_permuted D p p_perm Kc K_nonneg)).
    rewrite map_map. apply fsum_map_ext. intros m Hm. apply (in_bandD D Kc _ K_nonneg) in Hm. destruct Hm as [Hlm Hbm].
    unfold msk, relabel. rewrite (in_band_permi D p p_perm Kc m Hlm).
    assert (E : sigma (wrapD N (subi k m)) = wrapD N (subi (sigma k) (sigma m))).
    { unfold wrapD. rewrite (permi_map p (wrap1 N) _ wrap1_0). rewrite (permi_subi p k m) by lia. reflexivity. }
    assert (Hlen : length (wrapD N (subi k m)) = D).
    { unfold wrapD. rewrite map_length, subi_length; lia. }
    rewrite <- E, (in_band_permi D p p_perm Kc _ Hlen). reflexivity.
  Qed.

  (* derivative symbols: relabelling the wavenumber relabels the axis *)
  Variables (ii s : F).
  Lemma dc_relabel c k : (c < D)%nat -> dc F ii s c (sigma k) = dc F ii s (nth c p 0%nat) k.
  Proof. intros Hc. unfold dc. rewrite (nth_permi D p p_perm c k Hc). reflexivity. Qed.

  (* a sum over all axes is invariant under relabelling the axes *)
  Lemma axes_sum_relabel (g : nat -> F) : fsum (map (fun c => g (nth c p 0%nat)) (seq 0 D)) = fsum (map g (seq 0 D)).
  Proof.
    rewrite <- (fsum_perm F g _ _ p_perm). f_equal.
    rewrite <- (map_map (fun c => nth c p 0%nat) g). f_equal.
    apply (nth_ext _ _ 0%nat 0%nat); [rewrite map_length, seq_length; symmetry; apply (p_length D p p_perm)|].
    intros i Hi. rewrite map_length, seq_length in Hi.
    rewrite (nth_map_default _ _ _ 0%nat) by (rewrite seq_length; exact Hi). rewrite seq_nth by exact Hi. reflexivity.
  Qed.

  Notation P2 := (prod2 F D N Kc).

  (* single-channel convection (both forms) and the gradient norm of the relabelled field = the relabelled term *)
  Theorem conv_sc_cons_relabel (b : F) u k : length k = D ->
    conv_sc_cons F P2 ii s D b (relabel u) k = conv_sc_cons F P2 ii s D b u (sigma k).
  Proof.
    intros Hl. unfold conv_sc_cons, fscal, fmulp. rewrite (prod2_relabel u u k Hl). f_equal. f_equal. f_equal.
    unfold fsumf, axes. rewrite !map_map. rewrite <- (axes_sum_relabel (fun c => dc F ii s c k)).
    apply fsum_map_ext. intros c Hc. apply in_seq in Hc. symmetry. apply dc_relabel. lia.
  Qed.

  Lemma prod2_ext2 (U V V' : field F) k : (forall x, V x = V' x) -> P2 U V k = P2 U V' k.
  Proof.
    intros HV. rewrite !prod2_unfold. destruct (in_band Kc k); [|reflexivity]. f_equal. unfold cconv2. apply fsum_map_ext. intros m _.
    unfold msk. rewrite HV. reflexivity.
  Qed.
  Lemma prod2_ext12 (U U' V V' : field F) k : (forall x, U x = U' x) -> (forall x, V x = V' x) -> P2 U V k = P2 U' V' k.
  Proof.
    intros HU HV. rewrite !prod2_unfold. destruct (in_band Kc k); [|reflexivity]. f_equal. unfold cconv2. apply fsum_map_ext. intros m _.
    unfold msk. rewrite HU, HV. reflexivity.
  Qed.

  Lemma dmul_relabel c u x : (c < D)%nat -> fmulp F (dc F ii s (nth c p 0%nat)) (relabel u) x = relabel (fmulp F (dc F ii s c) u) x.
  Proof. intros Hc. unfold fmulp, relabel. rewrite (dc_relabel c x Hc). reflexivity. Qed.

  Theorem conv_sc_noncons_relabel (b : F) u k : length k = D ->
    conv_sc_noncons F P2 ii s D b (relabel u) k = conv_sc_noncons F P2 ii s D b u (sigma k).
  Proof.
    intros Hl. unfold conv_sc_noncons, fscal. f_equal. unfold fsumf, axes. rewrite !map_map.
    rewrite <- (axes_sum_relabel (fun c => P2 (relabel u) (fmulp F (dc F ii s c) (relabel u)) k)).
    apply fsum_map_ext. intros c Hc. apply in_seq in Hc.
    rewrite (prod2_ext2 (relabel u) _ (relabel (fmulp F (dc F ii s c) u)) k) by (intros x; apply dmul_relabel; lia).
    apply prod2_relabel. exact Hl.
  Qed.

  Theorem gradient_norm_relabel (b : F) (zf : bool) u k : length k = D ->
    gradient_norm F P2 ii s D b zf (relabel u) k = gradient_norm F P2 ii s D b zf u (sigma k).
  Proof.
    intros Hl. unfold gradient_norm. cbv zeta. unfold fscal. f_equal. f_equal.
    assert (E : fsumf F (map (fun c => P2 (fmulp F (dc F ii s c) (relabel u)) (fmulp F (dc F ii s c) (relabel u))) (axes D)) k
                = fsumf F (map (fun c => P2 (fmulp F (dc F ii s c) u) (fmulp F (dc F ii s c) u)) (axes D)) (sigma k)).
    { unfold fsumf, axes. rewrite !map_map.
      rewrite <- (axes_sum_relabel (fun c => P2 (fmulp F (dc F ii s c) (relabel u)) (fmulp F (dc F ii s c) (relabel u)) k)).
      apply fsum_map_ext. intros c Hc. apply in_seq in Hc.
      rewrite (prod2_ext12 _ (relabel (fmulp F (dc F ii s c) u)) _ (relabel (fmulp F (dc F ii s c) u)) k) by (intros x; apply dmul_relabel; lia).
      apply prod2_relabel. exact Hl. }
    destruct zf; [|exact E]. rewrite (is_zero_permi D p p_perm k Hl). destruct (is_zero k); [reflexivity | exact E].
  Qed.

  (* ---- vector-valued convection: the channels are permuted along with the axes ---- *)
  Lemma map2_seq {A B} (f : nat -> A -> B) (w : list A) (d0 : A) st :
    map2 f (seq st (length w)) w = map (fun j => f (st + j)%nat (nth j w d0)) (seq 0 (length w)).
  Proof.
    revert st. induction w as [|x w IH]; intros st; cbn [length seq map2 map]; [reflexivity|].
    f_equal; [f_equal; lia|]. rewrite IH, <- seq_shift, map_map. apply map_ext. intros j. cbn [nth]. f_equal. lia.
  Qed.

  Lemma map2_axes {A B} (f : nat -> A -> B) (w : list A) (d0 : A) : length w = D ->
    map2 f (seq 0 D) w = map (fun j => f j (nth j w d0)) (seq 0 D).
  Proof. intros <-. rewrite (map2_seq f w d0 0). apply map_ext. intros j. reflexivity. Qed.

  (* prod2 only looks at its arguments on index vectors of length D *)
  Lemma prod2_ext_len (U U' V V' : field F) k : length k = D ->
    (forall x, length x = D -> U x = U' x) -> (forall x, length x = D -> V x = V' x) -> P2 U V k = P2 U' V' k.
  Proof.
    intros Hl HU HV. rewrite !prod2_unfold. destruct (in_band Kc k); [|reflexivity]. f_equal. unfold cconv2. apply fsum_map_ext. intros m Hm.
    apply (in_bandD D Kc _ K_nonneg) in Hm. destruct Hm as [Hlm _]. unfold msk.
    rewrite (HU m Hlm). rewrite (HV (wrapD N (subi k m))); [reflexivity|]. unfold wrapD. rewrite map_length, subi_length; lia.
  Qed.

  (* u' is the field u seen in the permuted frame: channel i of u' at the re-labelled wavenumber is channel p_i of u *)
  Definition permuted_frame (u u' : list (field F)) : Prop :=
    length u = D /\ length u' = D /\ forall i x, (i < D)%nat -> length x = D -> nth i u' (fzero F) (sigma x) = nth (nth i p 0%nat) u (fzero F) x.

  Lemma P2_frame u u' i j k : permuted_frame u u' -> (i < D)%nat -> (j < D)%nat -> length k = D ->
    P2 (nth i u' (fzero F)) (nth j u' (fzero F)) (sigma k) = P2 (nth (nth i p 0%nat) u (fzero F)) (nth (nth j p 0%nat) u (fzero F)) k.
  Proof.
    intros (Hu & Hu' & HR) Hi Hj Hl. rewrite <- (prod2_relabel (nth i u' (fzero F)) (nth j u' (fzero F)) k Hl).
    apply prod2_ext_len; [exact Hl | intros x Hx; apply HR; assumption | intros x Hx; apply HR; assumption].
  Qed.

  Theorem conv_mc_cons_frame (b : F) u u' i k : permuted_frame u u' -> (i < D)%nat -> length k = D ->
    nth i (conv_mc_cons F P2 ii s D b u') (fzero F) (sigma k) = nth (nth i p 0%nat) (conv_mc_cons F P2 ii s D b u) (fzero F) k.
  Proof.
    intros HF Hi Hl. pose proof HF as (Hu & Hu' & HR).
    assert (Hpi : (nth i p 0 < D)%nat) by (apply (p_lt D p p_perm); apply nth_In; rewrite (p_length D p p_perm); exact Hi).
    unfold conv_mc_cons.
    rewrite (nth_map_default _ u' (fzero F) (fzero F) i) by lia. rewrite (nth_map_default _ u (fzero F) (fzero F) (nth i p 0%nat)) by lia.
    unfold fscal. f_equal. f_equal. unfold fsumf, axes.
    rewrite (map2_axes _ u' (fzero F) Hu'), (map2_axes _ u (fzero F) Hu), !map_map.
    rewrite <- (axes_sum_relabel (fun c => fmulp F (dc F ii s c) (P2 (nth (nth i p 0%nat) u (fzero F)) (nth c u (fzero F))) k)).
    apply fsum_map_ext. intros j Hj. apply in_seq in Hj. unfold fmulp. rewrite (dc_relabel j k) by lia.
    rewrite (P2_frame u u' i j k HF Hi ltac:(lia) Hl). reflexivity.
  Qed.

  Theorem conv_mc_noncons_frame (b : F) u u' i k : permuted_frame u u' -> (i < D)%nat -> length k = D ->
    nth i (conv_mc_noncons F P2 ii s D b u') (fzero F) (sigma k) = nth (nth i p 0%nat) (conv_mc_noncons F P2 ii s D b u) (fzero F) k.
  Proof.
    intros HF Hi Hl. pose proof HF as (Hu & Hu' & HR).
    assert (Hpi : (nth i p 0 < D)%nat) by (apply (p_lt D p p_perm); apply nth_In; rewrite (p_length D p p_perm); exact Hi).
    unfold conv_mc_noncons.
    rewrite (nth_map_default _ u' (fzero F) (fzero F) i) by lia. rewrite (nth_map_default _ u (fzero F) (fzero F) (nth i p 0%nat)) by lia.
    unfold fscal. f_equal. unfold fsumf, axes.
    rewrite (map2_axes _ u' (fzero F) Hu'), (map2_axes _ u (fzero F) Hu), !map_map.
    rewrite <- (axes_sum_relabel (fun c => P2 (nth c u (fzero F)) (fmulp F (dc F ii s c) (nth (nth i p 0%nat) u (fzero F))) k)).
    apply fsum_map_ext. intros j Hj. apply in_seq in Hj.
    rewrite <- (prod2_relabel (nth j u' (fzero F)) (fmulp F (dc F ii s j) (nth i u' (fzero F))) k Hl).
    apply prod2_ext_len; [exact Hl | intros x Hx; apply HR; [lia | exact Hx] |].
    intros x Hx. unfold relabel, fmulp. rewrite (dc_relabel j x) by lia. rewrite (HR i x Hi Hx). reflexivity.
  Qed.
End PermProducts.
