(* Dual numbers K[eps]/(eps^2) over any [Ops]: a value and an infinitesimal part.  [DualOps K] is again an [Ops], so every
   model function (which takes [K : Ops] only) can be run on dual numbers without change: the eps-part of the result is the
   forward-mode (algebraic) directional derivative.  This is what jax.jvp computes for programs built from + - * / and
   constants, with the primitive rules  d(x*y) = dx*y + x*dy,  d(x/y) = (dx*y - x*dy)/y^2,  d(exp x) = dx*exp x.
   Comparisons ([oeqb]) look at the VALUE only, as jnp.where / Python branches on primal values do under jvp.
   No proofs in this file (Base/DualProofs.v). *)
From Coq Require Import ZArith QArith List Bool.
From EXV Require Import Base.Scalar.
Import ListNotations.
Local Open Scope fld_scope.
Set Implicit Arguments.

Record dual (K : Type) := mkdual { val : K; eps : K }.
Arguments mkdual {K} _ _. Arguments val {K} _. Arguments eps {K} _.

Section DualOps.
  Variable K : Ops.
  Definition dzero : dual K := mkdual 0 0.
  Definition dunit : dual K := mkdual 1 0.
  Definition dadd (a b : dual K) := mkdual (val a + val b) (eps a + eps b).
  Definition dsub (a b : dual K) := mkdual (val a - val b) (eps a - eps b).
  Definition dopp (a : dual K) := mkdual (- val a) (- eps a).
  (* product rule *)
  Definition dmul (a b : dual K) := mkdual (val a * val b) (eps a * val b + val a * eps b).
  (* quotient rule *)
  Definition dinv (a : dual K) := mkdual (oinv (val a)) (- eps a / (val a * val a)).
  Definition ddiv (a b : dual K) := mkdual (val a / val b) ((eps a * val b - val a * eps b) / (val b * val b)).
  Definition deqb (a b : dual K) := oeqb (val a) (val b).
  Definition DualOps : Ops := mkOps dzero dunit dadd dmul dsub dopp ddiv dinv deqb.

  Definition dconst (x : K) : dual K := mkdual x 0.        (* a constant: derivative 0 *)
  Definition dvar (x : K) : dual K := mkdual x 1.          (* the variable differentiated against *)
  (* lifting of a primitive f with derivative f' (chain rule); exp is [dlift cexp cexp] *)
  Definition dlift (f f' : K -> K) (a : dual K) : dual K := mkdual (f (val a)) (eps a * f' (val a)).
  (* a state and a tangent direction, mode by mode *)
  Definition lift {I : Type} (u v : I -> K) : I -> dual K := fun k => mkdual (u k) (v k).
  Definition dconstf {I : Type} (u : I -> K) : I -> dual K := fun k => dconst (u k).
End DualOps.
Arguments dconst {K} x. Arguments dvar {K} x. Arguments dlift {K} f f' a. Arguments lift {K I} u v _. Arguments dconstf {K I} u _.

(* Polynomial expressions in variables x_0, x_1, ... with coefficients in K (deep embedding used to state [dual_sound]):
   evaluation in any Ops K' through an injection of the coefficients, and the formal directional derivative. *)
Inductive pexpr (K : Type) :=
| PVar (i : nat) | PConst (c : K)
| PAdd (a b : pexpr K) | PSub (a b : pexpr K) | PMul (a b : pexpr K) | POpp (a : pexpr K) | PPow (a : pexpr K) (n : nat).
Arguments PVar {K} i. Arguments PConst {K} c.

Section PExpr.
  Variables (K : Type) (K' : Ops) (inj : K -> K').
  Fixpoint peval (env : nat -> K') (e : pexpr K) : K' :=
    match e with
    | PVar i => env i | PConst c => inj c
    | PAdd a b => peval env a + peval env b | PSub a b => peval env a - peval env b
    | PMul a b => peval env a * peval env b | POpp a => - peval env a
    | PPow a n => fpow (peval env a) n
    end.
End PExpr.
Arguments peval {K K'} inj env e.

Section PDeriv.
  Variable K : Ops.
  (* formal directional derivative at the point x in direction v: sum rule, product rule, power rule *)
  Fixpoint pderiv (x v : nat -> K) (e : pexpr K) : K :=
    match e with
    | PVar i => v i | PConst _ => 0
    | PAdd a b => pderiv x v a + pderiv x v b | PSub a b => pderiv x v a - pderiv x v b
    | PMul a b => pderiv x v a * peval (K' := K) (fun c => c) x b + peval (K' := K) (fun c => c) x a * pderiv x v b
    | POpp a => - pderiv x v a
    | PPow a n => match n with O => 0 | S m => fz (Z.of_nat n) * fpow (peval (K' := K) (fun c => c) x a) m * pderiv x v a end
    end.
End PDeriv.
