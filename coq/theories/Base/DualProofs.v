(* Dual numbers over a field: the eps-part of a model term evaluated on dual numbers is its algebraic derivative.
   Sum/product/quotient/power rules, constants, sums over lists, soundness for polynomial expressions (structural
   induction), chain rule for compositions and n-fold iteration (rollout/repeat), the dual lift of exp. *)
From Coq Require Import ZArith QArith List Bool Field Ring Lia.
From EXV Require Import Base.Scalar Base.FieldLemmas Base.Dual Utils.Rollout.
Import ListNotations.
Local Open Scope fld_scope.

Lemma dual_ext {K} (a b : dual K) : val a = val b -> eps a = eps b -> a = b.
Proof. destruct a, b; cbn; intros -> ->; reflexivity. Qed.

Section DualField.
  Variable F : FieldT.
  Add Field Ffd : (fth F).
  Notation DF := (DualOps F).
  Implicit Types a b : DF.
  Implicit Types x y : F.

  Ltac dual_ring := intros; apply dual_ext; cbn; ring.

  (* the dual numbers form a commutative ring *)
  Lemma dual_ring_theory : ring_theory (@o0 DF) (@o1 DF) (@oadd DF) (@omul DF) (@osub DF) (@oopp DF) eq.
  Proof. constructor; dual_ring. Qed.

  (* projections *)
  Lemma val_add a b : val (a + b) = val a + val b. Proof. reflexivity. Qed.
  Lemma eps_add a b : eps (a + b) = eps a + eps b. Proof. reflexivity. Qed.
  Lemma val_sub a b : val (a - b) = val a - val b. Proof. reflexivity. Qed.
  Lemma eps_sub a b : eps (a - b) = eps a - eps b. Proof. reflexivity. Qed.
  Lemma val_mul a b : val (a * b) = val a * val b. Proof. reflexivity. Qed.
  (* product rule *)
  Lemma eps_mul a b : eps (a * b) = eps a * val b + val a * eps b. Proof. reflexivity. Qed.
  Lemma val_div a b : val (a / b) = val a / val b. Proof. reflexivity. Qed.
  (* quotient rule *)
  Lemma eps_div a b : eps (a / b) = (eps a * val b - val a * eps b) / (val b * val b). Proof. reflexivity. Qed.

  (* the quotient rule is the right one: a / b is the solution of b * q = a whenever the VALUE of b is invertible *)
  Lemma ddiv_ok a b : val b <> 0 -> b * (a / b) = a.
  Proof. intros H. apply dual_ext; cbn; field; exact H. Qed.
  Lemma dinv_ok a : val a <> 0 -> a * oinv a = 1.
  Proof. intros H. apply dual_ext; cbn; field; exact H. Qed.
  Lemma ddiv_unique a b q : val b <> 0 -> b * q = a -> q = a / b.
  Proof.
    intros H E. assert (Hv : val b * val q = val a) by (rewrite <- E; reflexivity).
    assert (He : eps b * val q + val b * eps q = eps a) by (rewrite <- E; reflexivity).
    apply dual_ext; cbn.
    - rewrite <- Hv. field. exact H.
    - rewrite <- He, <- Hv. field. exact H.
  Qed.

  (* constants *)
  Lemma dconst_add x y : dconst (x + y) = ((dconst x : DF) + dconst y). Proof. dual_ring. Qed.
  Lemma dconst_sub x y : dconst (x - y) = ((dconst x : DF) - dconst y). Proof. dual_ring. Qed.
  Lemma dconst_mul x y : dconst (x * y) = ((dconst x : DF) * dconst y). Proof. dual_ring. Qed.
  Lemma dconst_opp x : dconst (- x) = (- (dconst x : DF)). Proof. dual_ring. Qed.
  Lemma dconst_div x y : ((dconst x : DF) / dconst y) = dconst (x / y).
  Proof. apply dual_ext; cbn; [reflexivity|]. rewrite fdiv_def. ring. Qed.
  Lemma dconst_inv x : (oinv (dconst x : DF)) = dconst (oinv x).
  Proof. apply dual_ext; cbn; [reflexivity|]. rewrite fdiv_def. ring. Qed.
  (* a constant factor: d(c*a) = c*da *)
  Lemma dconst_scal x a : ((dconst x : DF) * a) = mkdual (x * val a) (x * eps a).
  Proof. dual_ring. Qed.

  Lemma dual_fpos p : @fpos DF p = dconst (fpos p).
  Proof. induction p as [p IH|p IH|]; cbn [fpos]; try rewrite IH; dual_ring. Qed.
  Lemma dual_fz z : @fz DF z = dconst (fz z).
  Proof. destruct z; cbn [fz]; try rewrite dual_fpos; dual_ring. Qed.
  Lemma dual_fpow_const x n : @fpow DF (dconst x) n = dconst (fpow x n).
  Proof. induction n as [|n IH]; cbn [fpow]; [reflexivity | rewrite IH; dual_ring]. Qed.
  Lemma dual_fq q : @fq DF q = dconst (fq q).
  Proof. unfold fq. rewrite dual_fz, dual_fpos. apply dconst_div. Qed.

  (* power rule: d(a^n) = n a^(n-1) da *)
  Lemma val_fpow a n : val (fpow a n) = fpow (val a) n.
  Proof. induction n as [|n IH]; cbn [fpow]; [reflexivity | rewrite val_mul, IH; reflexivity]. Qed.
  Lemma eps_fpow a n : eps (fpow a (S n)) = fz (Z.of_nat (S n)) * fpow (val a) n * eps a.
  Proof.
    induction n as [|n IH].
    - cbn. ring.
    - change (fpow a (S (S n))) with (a * fpow a (S n)). rewrite eps_mul, IH, val_fpow.
      rewrite (Nat2Z.inj_succ (S n)). unfold Z.succ. rewrite fz_add. cbn [fpow fz fpos]. ring.
  Qed.
  Lemma eps_fpow0 a : eps (fpow a 0) = 0. Proof. reflexivity. Qed.

  (* sums over lists: d(sum) = sum of d *)
  Lemma val_fsum (l : list DF) : val (fsum l) = fsum (map val l).
  Proof. induction l as [|a l IH]; cbn [fsum map]; [reflexivity | rewrite val_add, IH; reflexivity]. Qed.
  Lemma eps_fsum (l : list DF) : eps (fsum l) = fsum (map eps l).
  Proof. induction l as [|a l IH]; cbn [fsum map]; [reflexivity | rewrite eps_add, IH; reflexivity]. Qed.
  Lemma dual_fsum_map {A} (l : list A) (f : A -> DF) :
    fsum (map f l) = mkdual (fsum (map (fun t => val (f t)) l)) (fsum (map (fun t => eps (f t)) l)).
  Proof. apply dual_ext; cbn [val eps]; [rewrite val_fsum | rewrite eps_fsum]; rewrite map_map; reflexivity. Qed.
  (* generalised Leibniz rule for a product over a list *)
  Lemma val_fprod (l : list DF) : val (fprod l) = fprod (map val l).
  Proof. induction l as [|a l IH]; cbn [fprod map]; [reflexivity | rewrite val_mul, IH; reflexivity]. Qed.

  (* ---- soundness for polynomial expressions (structural induction) ---- *)
  Theorem dual_sound (e : pexpr F) (x v : nat -> F) :
    peval (K' := DF) dconst (fun i => mkdual (x i) (v i)) e
    = mkdual (peval (K' := F) (fun c => c) x e) (pderiv F x v e).
  Proof.
    induction e as [i|c|a IHa b IHb|a IHa b IHb|a IHa b IHb|a IHa|a IHa n]; cbn [peval pderiv].
    - reflexivity.
    - reflexivity.
    - rewrite IHa, IHb. dual_ring.
    - rewrite IHa, IHb. dual_ring.
    - rewrite IHa, IHb. dual_ring.
    - rewrite IHa. dual_ring.
    - rewrite IHa. destruct n as [|m].
      + reflexivity.
      + apply dual_ext.
        * rewrite val_fpow. reflexivity.
        * rewrite eps_fpow. reflexivity.
  Qed.

  (* the eps-part is linear in the direction, and exact first-order Taylor expansion holds in the dual ring:
     f(x + eps v) = f(x) + eps Df(x)[v] *)
  Lemma pderiv_add (e : pexpr F) (x v w : nat -> F) :
    pderiv F x (fun i => v i + w i) e = pderiv F x v e + pderiv F x w e.
  Proof.
    induction e as [i|c|a IHa b IHb|a IHa b IHb|a IHa b IHb|a IHa|a IHa n]; cbn [pderiv]; try rewrite IHa; try rewrite IHb; try ring.
    destruct n; ring.
  Qed.
  Lemma pderiv_scal (e : pexpr F) (x v : nat -> F) (h : F) :
    pderiv F x (fun i => h * v i) e = h * pderiv F x v e.
  Proof.
    induction e as [i|c|a IHa b IHb|a IHa b IHb|a IHa b IHb|a IHa|a IHa n]; cbn [pderiv]; try rewrite IHa; try rewrite IHb; try ring.
    destruct n; ring.
  Qed.

  (* ---- exp: the dual lift of a function satisfying the exponential law satisfies it again ---- *)
  Section Exp.
    Variable cexp : F -> F.
    Hypothesis cexp_add : forall x y, cexp (x + y) = cexp x * cexp y.
    Hypothesis cexp_0 : cexp 0 = 1.
    Definition dexp : DF -> DF := dlift cexp cexp.
    Lemma dexp_add a b : dexp (a + b) = dexp a * dexp b.
    Proof. unfold dexp, dlift. apply dual_ext; cbn; rewrite cexp_add; ring. Qed.
    Lemma dexp_0 : dexp 0 = 1.
    Proof. unfold dexp, dlift. apply dual_ext; cbn; [exact cexp_0 | ring]. Qed.
    Lemma dexp_const x : dexp (dconst x) = dconst (cexp x).
    Proof. unfold dexp, dlift. apply dual_ext; cbn; [reflexivity | ring]. Qed.
    (* d/dt exp(t*lam) = lam * exp(t*lam) *)
    Lemma dexp_dt t lam : dexp ((dvar t : DF) * dconst lam) = mkdual (cexp (t * lam)) (lam * cexp (t * lam)).
    Proof. unfold dexp, dlift, dvar. apply dual_ext; cbn; [reflexivity | ring]. Qed.
  End Exp.

  (* ---- chain rule: compositions and n-fold iteration of maps on mode-indexed states ---- *)
  Section Chain.
    Variable I : Type.
    Notation St := (I -> F).
    Notation DSt := (I -> DF).
    (* fD is the dual-number evaluation of f, Df its directional derivative *)
    Definition dual_deriv (fD : DSt -> DSt) (f : St -> St) (Df : St -> St -> St) : Prop :=
      forall u v k, fD (lift u v) k = mkdual (f u k) (Df u v k).
    Definition ext_fun {A B} (g : (I -> A) -> (I -> B)) : Prop :=
      forall p q, (forall k, p k = q k) -> forall k, g p k = g q k.

    Lemma dual_chain fD f Df gD g Dg :
      dual_deriv fD f Df -> dual_deriv gD g Dg -> ext_fun gD ->
      dual_deriv (fun p => gD (fD p)) (fun u => g (f u)) (fun u v => Dg (f u) (Df u v)).
    Proof.
      intros Hf Hg Eg u v k. rewrite <- Hg. apply Eg. intros j. rewrite Hf. reflexivity.
    Qed.

    (* [iter n f u] is the n-fold application of Utils/Rollout.v (= repeat, = entry n-1 of rollout; C14) *)
    (* derivative of the n-fold iterate: product of the Jacobians along the trajectory *)
    Fixpoint Diter (n : nat) (f : St -> St) (Df : St -> St -> St) (u v : St) : St :=
      match n with O => v | S m => Df (iter m f u) (Diter m f Df u v) end.

    Lemma dual_iter fD f Df : dual_deriv fD f Df -> ext_fun fD ->
      forall n, dual_deriv (iter n fD) (iter n f) (Diter n f Df).
    Proof.
      intros Hf Ef n. induction n as [|n IH]; intros u v k; cbn [iter Diter].
      - reflexivity.
      - rewrite <- Hf. apply Ef. intros j. rewrite IH. reflexivity.
    Qed.
  End Chain.
End DualField.
