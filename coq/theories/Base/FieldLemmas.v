(* Generic lemmas over an abstract field of characteristic 0, and the Qc instance. *)
From Coq Require Import ZArith QArith Qcanon Field Ring List Bool Lia.
From EXV Require Import Base.Scalar.
Import ListNotations.
Local Open Scope fld_scope.

Section FieldLemmas.
  Variable F : FieldT.
  Add Field Ffield : (fth F).
  Implicit Types x y z : F.

  Lemma f_1_neq_0 : (1 : F) <> 0.
  Proof. exact (F_1_neq_0 (fth F)). Qed.

  Lemma fmul_eq0 x y : x * y = 0 -> x = 0 \/ y = 0.
  Proof.
    intros H. destruct (oeqb x 0) eqn:E.
    - left. apply feqb_ok. exact E.
    - right. assert (Hx : x <> 0) by (intro H0; apply feqb_ok in H0; congruence).
      transitivity (oinv x * (x * y)); [field; exact Hx | rewrite H; ring].
  Qed.

  Lemma fmul_neq0 x y : x <> 0 -> y <> 0 -> x * y <> 0.
  Proof. intros Hx Hy H. destruct (fmul_eq0 _ _ H); contradiction. Qed.

  Lemma feq_dec x y : {x = y} + {x <> y}.
  Proof.
    destruct (oeqb x y) eqn:E; [left; apply feqb_ok; exact E|].
    right; intro H; apply feqb_ok in H; congruence.
  Qed.

  Lemma feqb_refl x : oeqb x x = true.
  Proof. apply feqb_ok; reflexivity. Qed.

  Lemma feqb_false x y : oeqb x y = false <-> x <> y.
  Proof.
    split.
    - intros E H. apply feqb_ok in H. congruence.
    - intros H. destruct (oeqb x y) eqn:E; [apply feqb_ok in E; contradiction|reflexivity].
  Qed.

  Lemma fsub_eq0 x y : x - y = 0 -> x = y.
  Proof. intros H. transitivity (x - y + y); [ring | rewrite H; ring]. Qed.

  Lemma fopp_eq0 x : - x = 0 -> x = 0.
  Proof. intros H. transitivity (- - x); [ring | rewrite H; ring]. Qed.

  Lemma finv_neq0 x : x <> 0 -> oinv x <> 0.
  Proof.
    intros Hx H. apply f_1_neq_0. transitivity (x * oinv x); [field; exact Hx | rewrite H; ring].
  Qed.

  Lemma fdiv_def x y : x / y = x * oinv y.
  Proof. exact (Fdiv_def (fth F) x y). Qed.

  Lemma fmul_cancel_l x y z : x <> 0 -> x * y = x * z -> y = z.
  Proof.
    intros Hx H. transitivity (oinv x * (x * y)); [field; exact Hx|].
    rewrite H. field. exact Hx.
  Qed.

  (* ---- powers ---- *)
  Lemma fpow_add x n m : fpow x (n + m) = fpow x n * fpow x m.
  Proof. induction n as [|n IH]; cbn [fpow Nat.add]; [ring | rewrite IH; ring]. Qed.

  Lemma fpow_mul x n m : fpow x (n * m) = fpow (fpow x n) m.
  Proof.
    induction m as [|m IH]; [rewrite Nat.mul_0_r; reflexivity|].
    rewrite Nat.mul_succ_r, Nat.add_comm, fpow_add, IH. cbn [fpow]. ring.
  Qed.

  Lemma fpow_1 n : fpow (1 : F) n = 1.
  Proof. induction n as [|n IH]; cbn [fpow]; [reflexivity | rewrite IH; ring]. Qed.

  Lemma fpow_mul_base x y n : fpow (x * y) n = fpow x n * fpow y n.
  Proof. induction n as [|n IH]; cbn [fpow]; [ring | rewrite IH; ring]. Qed.

  Lemma fpow_neq0 x n : x <> 0 -> fpow x n <> 0.
  Proof.
    intros Hx; induction n as [|n IH]; cbn [fpow]; [apply f_1_neq_0 | apply fmul_neq0; assumption].
  Qed.

  Lemma fpow_0 n : (0 < n)%nat -> fpow (0 : F) n = 0.
  Proof. destruct n; [lia|]. intros _. cbn [fpow]. ring. Qed.

  Lemma fpow_inv x n : x <> 0 -> fpow (oinv x) n = oinv (fpow x n).
  Proof.
    intros Hx. induction n as [|n IH]; cbn [fpow].
    - field. apply f_1_neq_0.
    - rewrite IH. field. split; [apply fpow_neq0|]; exact Hx.
  Qed.

  Lemma fpow_opp_even x n : fpow (- x) (2 * n) = fpow x (2 * n).
  Proof.
    rewrite !fpow_mul. f_equal. cbn [fpow]. ring.
  Qed.

  (* ---- integer injection is a ring morphism ---- *)
  Lemma fpos_succ p : @fpos F (Pos.succ p) = 1 + fpos p.
  Proof. induction p as [p IH|p IH|]; cbn [fpos Pos.succ]; try rewrite IH; ring. Qed.

  Lemma fpos_add p q : @fpos F (p + q) = fpos p + fpos q.
  Proof.
    revert q. induction p as [|p IH] using Pos.peano_ind; intros q.
    - rewrite Pos.add_1_l, fpos_succ. reflexivity.
    - rewrite Pos.add_succ_l, !fpos_succ, IH. ring.
  Qed.

  Lemma fpos_mul p q : @fpos F (p * q) = fpos p * fpos q.
  Proof.
    induction p as [|p IH] using Pos.peano_ind.
    - rewrite Pos.mul_1_l. cbn [fpos]. ring.
    - rewrite Pos.mul_succ_l, fpos_add, IH, fpos_succ. ring.
  Qed.

  Lemma fz_pos_sub p q : @fz F (Z.pos_sub p q) = fpos p - fpos q.
  Proof.
    rewrite Z.pos_sub_spec. destruct (Pos.compare_spec p q) as [->|H|H]; cbn [fz].
    - ring.
    - replace q with (p + (q - p))%positive at 2 by (rewrite Pos.add_comm; apply Pos.sub_add; exact H).
      rewrite fpos_add. ring.
    - replace p with (q + (p - q))%positive at 2 by (rewrite Pos.add_comm; apply Pos.sub_add; exact H).
      rewrite fpos_add. ring.
  Qed.

  Lemma fz_add a b : @fz F (a + b) = fz a + fz b.
  Proof.
    destruct a, b; cbn [fz Z.add]; try rewrite fpos_add; try rewrite fz_pos_sub; ring.
  Qed.

  Lemma fz_opp a : @fz F (- a) = - fz a.
  Proof. destruct a; cbn [fz Z.opp]; ring. Qed.

  Lemma fz_sub a b : @fz F (a - b) = fz a - fz b.
  Proof. unfold Z.sub. rewrite fz_add, fz_opp. ring. Qed.

  Lemma fz_mul a b : @fz F (a * b) = fz a * fz b.
  Proof. destruct a, b; cbn [fz Z.mul]; try rewrite fpos_mul; ring. Qed.

  Lemma fz_0 : @fz F 0 = 0. Proof. reflexivity. Qed.
  Lemma fz_1 : @fz F 1 = 1. Proof. reflexivity. Qed.

  Lemma fz_neq0 a : a <> 0%Z -> @fz F a <> 0.
  Proof.
    destruct a; cbn [fz]; intros H; [congruence | apply fchar0 |].
    intro E. apply fopp_eq0 in E. revert E. apply fchar0.
  Qed.

  Lemma fz_inj a b : @fz F a = fz b -> a = b.
  Proof.
    intros H. destruct (Z.eq_dec (a - b) 0) as [E|E]; [lia|].
    exfalso. apply (fz_neq0 _ E). rewrite fz_sub, H. ring.
  Qed.

  Lemma two_neq0 : (two : F) <> 0.
  Proof. intro H. apply (fchar0 F 2%positive). cbn [fpos]. rewrite <- H. unfold two. ring. Qed.

  Lemma fz_pow a n : @fz F (a ^ Z.of_nat n) = fpow (fz a) n.
  Proof.
    induction n as [|n IH]; [reflexivity|].
    rewrite Nat2Z.inj_succ, Z.pow_succ_r by lia. rewrite fz_mul, IH. reflexivity.
  Qed.

  (* ---- sums over lists ---- *)
  Lemma fsum_app (l1 l2 : list F) : fsum (l1 ++ l2) = fsum l1 + fsum l2.
  Proof. induction l1 as [|a l IH]; cbn [fsum app]; [ring | rewrite IH; ring]. Qed.

  Lemma fsum_map_add {A} (l : list A) (f g : A -> F) :
    fsum (map (fun a => f a + g a) l) = fsum (map f l) + fsum (map g l).
  Proof. induction l as [|a l IH]; cbn [fsum map]; [ring | rewrite IH; ring]. Qed.

  Lemma fsum_map_scal {A} (l : list A) (c : F) (f : A -> F) :
    fsum (map (fun a => c * f a) l) = c * fsum (map f l).
  Proof. induction l as [|a l IH]; cbn [fsum map]; [ring | rewrite IH; ring]. Qed.

  Lemma fsum_map_ext {A} (l : list A) (f g : A -> F) :
    (forall a, In a l -> f a = g a) -> fsum (map f l) = fsum (map g l).
  Proof.
    induction l as [|a l IH]; cbn [fsum map]; intros H; [reflexivity|].
    rewrite (H a) by (left; reflexivity). rewrite IH; [reflexivity|].
    intros b Hb. apply H. right. exact Hb.
  Qed.

  Lemma fsum_map_zero {A} (l : list A) : fsum (map (fun _ => (0 : F)) l) = 0.
  Proof. induction l as [|a l IH]; cbn [fsum map]; [reflexivity | rewrite IH; ring]. Qed.

  Lemma fsum_map_swap {A B} (la : list A) (lb : list B) (f : A -> B -> F) :
    fsum (map (fun a => fsum (map (fun b => f a b) lb)) la)
    = fsum (map (fun b => fsum (map (fun a => f a b) la)) lb).
  Proof.
    induction la as [|a la IH]; cbn [fsum map].
    - symmetry. apply fsum_map_zero.
    - rewrite IH. rewrite <- fsum_map_add. reflexivity.
  Qed.
End FieldLemmas.

(* ------------------------------------------------------------------ *)
(* Qc is a FieldT. *)
Lemma Qc_eqb_ok (x y : Qc) : Qc_eq_bool x y = true <-> x = y.
Proof.
  split; [apply Qc_eq_bool_correct|]. intros ->. unfold Qc_eq_bool.
  destruct (Qc_eq_dec y y); [reflexivity | congruence].
Qed.

Lemma Qc_fpos (p : positive) : (this (@fpos QcOps p) == (Zpos p # 1))%Q.
Proof.
  induction p as [p IH|p IH|]; cbn [fpos QcOps o1 oadd omul].
  - unfold Qcplus, Qcmult, Q2Qc; cbn [this]. rewrite ?Qred_correct. rewrite IH.
    unfold Qeq; cbn; lia.
  - unfold Qcplus, Qcmult, Q2Qc; cbn [this]. rewrite ?Qred_correct. rewrite IH.
    unfold Qeq; cbn; lia.
  - reflexivity.
Qed.

Lemma Qc_char0 (p : positive) : @fpos QcOps p <> @o0 QcOps.
Proof.
  intro H. assert (E := Qc_fpos p). rewrite H in E. unfold Qeq in E. cbn in E. lia.
Qed.

Definition QcField : FieldT := mkFieldT QcOps Qcft Qc_eqb_ok Qc_char0.
