(* Complex numbers over any Ops; a FieldT when the base field is formally real. *)
From Coq Require Import ZArith QArith Qcanon Field Ring List Bool Lia.
From EXV Require Import Base.Scalar Base.FieldLemmas.
Local Open Scope fld_scope.
Set Implicit Arguments.

Record cx (K : Type) := mkcx { re : K; im : K }.
Arguments mkcx {K} _ _. Arguments re {K} _. Arguments im {K} _.

Section CplxOps.
  Variable K : Ops.
  Definition c0 : cx K := mkcx 0 0.
  Definition c1 : cx K := mkcx 1 0.
  Definition ci : cx K := mkcx 0 1.
  Definition cadd (a b : cx K) := mkcx (re a + re b) (im a + im b).
  Definition csub (a b : cx K) := mkcx (re a - re b) (im a - im b).
  Definition copp (a : cx K) := mkcx (- re a) (- im a).
  Definition cmul (a b : cx K) := mkcx (re a * re b - im a * im b) (re a * im b + im a * re b).
  Definition cnorm2 (a : cx K) : K := re a * re a + im a * im a.
  Definition cconj (a : cx K) := mkcx (re a) (- im a).
  Definition cinv (a : cx K) := mkcx (re a / cnorm2 a) (- im a / cnorm2 a).
  Definition cdiv (a b : cx K) := cmul a (cinv b).
  Definition ceqb (a b : cx K) := oeqb (re a) (re b) && oeqb (im a) (im b).
  Definition cofr (x : K) : cx K := mkcx x 0.
  Definition cscal (x : K) (a : cx K) := mkcx (x * re a) (x * im a).
  Definition COps : Ops := mkOps c0 c1 cadd cmul csub copp cdiv cinv ceqb.
End CplxOps.
Arguments ci {K}. Arguments cofr {K} x. Arguments cconj {K} a. Arguments cnorm2 {K} a.
Arguments cscal {K} x a. Arguments cadd {K} a b. Arguments csub {K} a b. Arguments cmul {K} a b.
Arguments copp {K} a. Arguments cinv {K} a. Arguments cdiv {K} a b. Arguments ceqb {K} a b.

Lemma cx_ext {K} (a b : cx K) : re a = re b -> im a = im b -> a = b.
Proof. destruct a, b; cbn; intros -> ->; reflexivity. Qed.

Definition FormallyReal (F : FieldT) : Prop :=
  forall x y : F, x * x + y * y = 0 -> x = 0 /\ y = 0.

Section CplxField.
  Variable F : FieldT.
  Hypothesis FR : FormallyReal F.
  Add Field Ffield2 : (fth F).

  Ltac cx_ring := intros; apply cx_ext; cbn; ring.

  Lemma cnorm2_neq0 (a : cx F) : a <> c0 F -> cnorm2 a <> 0.
  Proof.
    intros Ha H. apply Ha. destruct (FR _ _ H) as [H1 H2].
    apply cx_ext; cbn; assumption.
  Qed.

  Lemma C_ring : ring_theory (c0 F) (c1 F) (@cadd F) (@cmul F) (@csub F) (@copp F) eq.
  Proof. constructor; cx_ring. Qed.

  Lemma C_field : field_theory (c0 F) (c1 F) (@cadd F) (@cmul F) (@csub F) (@copp F)
                               (@cdiv F) (@cinv F) eq.
  Proof.
    constructor.
    - exact C_ring.
    - intro H. apply (f_equal re) in H. cbn in H. exact (f_1_neq_0 F H).
    - reflexivity.
    - intros p Hp. assert (Hn := cnorm2_neq0 Hp). apply cx_ext; cbn; unfold cnorm2 in *; field; exact Hn.
  Qed.

  Lemma C_eqb_ok (x y : cx F) : ceqb x y = true <-> x = y.
  Proof.
    unfold ceqb. rewrite andb_true_iff, !feqb_ok. split.
    - intros [H1 H2]. apply cx_ext; assumption.
    - intros ->. split; reflexivity.
  Qed.

  Lemma C_fpos (p : positive) : @fpos (COps F) p = cofr (@fpos F p).
  Proof.
    induction p as [p IH|p IH|]; cbn [fpos]; try rewrite IH; apply cx_ext; cbn; ring.
  Qed.

  Lemma C_char0 (p : positive) : @fpos (COps F) p <> @o0 (COps F).
  Proof.
    rewrite C_fpos. intro H. apply (f_equal re) in H. cbn in H. exact (fchar0 F p H).
  Qed.

  Definition CField : FieldT := mkFieldT (COps F) C_field C_eqb_ok C_char0.

  Lemma ci_sq : @omul (COps F) ci ci = @oopp (COps F) 1.
  Proof. apply cx_ext; cbn; ring. Qed.
End CplxField.

(* Qc is formally real *)
Lemma Qc_formally_real : FormallyReal QcField.
Proof.
  intros x y H. change (Qcplus (Qcmult x x) (Qcmult y y) = 0%Qc) in H.
  assert (Hq : (this x * this x + this y * this y == 0)%Q).
  { apply (f_equal this) in H. unfold Qcplus, Qcmult, Q2Qc in H. cbn [this] in H.
    assert (E : (Qred (Qred (this x * this x) + Qred (this y * this y)) == 0)%Q) by (rewrite H; reflexivity).
    rewrite !Qred_correct in E. exact E. }
  assert (Hx : (this x == 0)%Q /\ (this y == 0)%Q).
  { destruct x as [[a b] Hc], y as [[c d] Hd]. cbn [this] in Hq |- *. unfold Qeq, Qplus, Qmult in *.
    cbn [Qnum Qden] in *. nia. }
  destruct Hx as [Hx Hy]. split; apply Qc_is_canon; assumption.
Qed.

Definition QcC : FieldT := CField Qc_formally_real.
