(* Scalars: an executable operations record [Ops] (what the model computes with)
   and [FieldT] (what the theorems assume about it).  Every model function takes
   [O : Ops] only, so the same definition is proved about and extracted. *)
From Coq Require Import ZArith QArith Qcanon Field Ring List Bool Lia.
Import ListNotations.
Set Implicit Arguments.

Record Ops := mkOps {
  car :> Type;
  o0 : car; o1 : car;
  oadd : car -> car -> car; omul : car -> car -> car; osub : car -> car -> car;
  oopp : car -> car; odiv : car -> car -> car; oinv : car -> car;
  oeqb : car -> car -> bool }.

Declare Scope fld_scope.
Delimit Scope fld_scope with fld.
Bind Scope fld_scope with car.
Arguments o0 {_}. Arguments o1 {_}.
Arguments oadd {_} _ _. Arguments omul {_} _ _. Arguments osub {_} _ _.
Arguments oopp {_} _. Arguments odiv {_} _ _. Arguments oinv {_} _. Arguments oeqb {_} _ _.
Notation "0" := o0 : fld_scope.
Notation "1" := o1 : fld_scope.
Infix "+" := oadd : fld_scope.
Infix "*" := omul : fld_scope.
Infix "-" := osub : fld_scope.
Infix "/" := odiv : fld_scope.
Notation "- x" := (oopp x) : fld_scope.

(* integers, rationals and integer powers inside any Ops *)
Section Inject.
  Variable K : Ops.
  Local Open Scope fld_scope.
  Fixpoint fpos (p : positive) : K :=
    match p with
    | xH => 1
    | xO q => (1 + 1) * fpos q
    | xI q => 1 + (1 + 1) * fpos q
    end.
  Definition fz (z : Z) : K :=
    match z with Z0 => 0 | Zpos p => fpos p | Zneg p => - fpos p end.
  Definition fq (q : Q) : K := fz (Qnum q) / fpos (Qden q).
  Fixpoint fpow (x : K) (n : nat) : K :=
    match n with O%nat => 1 | S m => x * fpow x m end.
  Definition fzpow (x : K) (z : Z) : K :=
    match z with
    | Z0 => 1 | Zpos p => fpow x (Pos.to_nat p) | Zneg p => oinv (fpow x (Pos.to_nat p))
    end.
  Definition two : K := 1 + 1.
  Fixpoint fsum (l : list K) : K := match l with [] => 0 | x :: r => x + fsum r end.
  Fixpoint fprod (l : list K) : K := match l with [] => 1 | x :: r => x * fprod r end.
End Inject.
Arguments fz {K} z. Arguments fq {K} q. Arguments fpos {K} p.
Arguments fpow {K} x n. Arguments fzpow {K} x z. Arguments two {K}.
Arguments fsum {K} l. Arguments fprod {K} l.

Record FieldT := mkFieldT {
  fops :> Ops;
  fth : field_theory (@o0 fops) (@o1 fops) (@oadd fops) (@omul fops) (@osub fops)
                     (@oopp fops) (@odiv fops) (@oinv fops) (@eq fops);
  feqb_ok : forall x y : fops, oeqb x y = true <-> x = y;
  fchar0 : forall p : positive, @fpos fops p <> @o0 fops }.

(* ------------------------------------------------------------------ *)
(* The rational instance (canonical rationals: Leibniz equality).      *)
Definition QcOps : Ops :=
  mkOps 0%Qc 1%Qc Qcplus Qcmult Qcminus Qcopp Qcdiv Qcinv Qc_eq_bool.
