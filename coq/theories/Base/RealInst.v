(* The real numbers of Coq's standard library as a FieldT (formally real), used ONLY for non-vacuity Examples whose
   hypotheses need irrational numbers (e.g. a primitive 8th root of unity needs sqrt 2).  Equality on R is decided
   classically (Req_EM_T); nothing here is extracted or executed. *)
From Coq Require Import ZArith QArith Field Ring List Bool Lia Reals Lra.
From EXV Require Import Base.Scalar Base.FieldLemmas Base.Cplx.
Local Open Scope R_scope.

Definition Reqb (x y : R) : bool := if Req_EM_T x y then true else false.
Definition ROps : Ops := mkOps 0 1 Rplus Rmult Rminus Ropp Rdiv Rinv Reqb.

Lemma Reqb_ok (x y : R) : Reqb x y = true <-> x = y.
Proof. unfold Reqb. destruct (Req_EM_T x y); split; congruence. Qed.

Lemma R_fpos_pos (p : positive) : 0 < @fpos ROps p.
Proof. induction p as [p IH|p IH|]; cbn [fpos ROps o1 oadd omul] in *; lra. Qed.

Lemma R_char0 (p : positive) : @fpos ROps p <> @o0 ROps.
Proof. pose proof (R_fpos_pos p). cbn [ROps o0]. lra. Qed.

Definition RField : FieldT := mkFieldT ROps Rfield Reqb_ok R_char0.

Lemma R_formally_real : FormallyReal RField.
Proof.
  intros x y H. apply Rplus_sqr_eq_0. exact H.
Qed.

Definition RC : FieldT := CField R_formally_real.

(* w = (sqrt 2 / 2)(1 + i) is a primitive 8th root of unity: w^4 = -1 *)
Definition w8 : RC := mkcx (sqrt 2 / 2) (sqrt 2 / 2).
Lemma w8_pow4 : @fpow RC w8 4 = @oopp RC (@o1 RC).
Proof.
  assert (H : sqrt 2 * sqrt 2 = 2) by (apply sqrt_sqrt; lra).
  apply cx_ext; cbn; nra.
Qed.

(* the complex exponential on R(i): exponential law and exp(i pi) = -1 *)
Definition rcexp (z : RC) : RC := mkcx (exp (re z) * cos (im z)) (exp (re z) * sin (im z)).
Definition rc_pi : RC := mkcx PI 0.

Lemma rcexp_add (a b : RC) : rcexp (@oadd RC a b) = @omul RC (rcexp a) (rcexp b).
Proof.
  destruct a as [x y], b as [u v]. apply cx_ext; cbn; rewrite exp_plus; [rewrite cos_plus | rewrite sin_plus]; ring.
Qed.
Lemma rcexp_0 : rcexp (@o0 RC) = @o1 RC.
Proof. apply cx_ext; cbn; rewrite exp_0; [rewrite cos_0 | rewrite sin_0]; ring. Qed.
Lemma rcexp_ipi : rcexp (@omul RC ci rc_pi) = @oopp RC (@o1 RC).
Proof.
  apply cx_ext; cbn.
  - replace (0 * PI - 1 * 0) with 0 by ring. replace (0 * 0 + 1 * PI) with PI by ring. rewrite exp_0, cos_PI. ring.
  - replace (0 * PI - 1 * 0) with 0 by ring. replace (0 * 0 + 1 * PI) with PI by ring. rewrite exp_0, sin_PI. ring.
Qed.
