(* Vocabulary for statements about derivatives of steppers at the algebraic level (C07):
   perturbed states u + h v, central difference quotients, the bilinear pairing used by the reverse-mode dot test,
   mode-wise (diagonal) multipliers, and multilinearity of maps between mode-indexed states.
   What jax.jvp / jax.vjp / central differences compute is modelled by: the eps-part of the dual-number evaluation
   (Base/Dual.v), the transpose with respect to [pairing], and [cdiff].  No proofs in this file. *)
From Coq Require Import ZArith QArith List Bool.
From EXV Require Import Base.Scalar.
Import ListNotations.
Local Open Scope fld_scope.

Section Deriv.
  Variable K : Ops.
  Variable I : Type.
  Notation St := (I -> K).
  Definition pert (u : St) (h : K) (v : St) : St := fun k => u k + h * v k.            (* u + h v *)
  Definition padd (u v : St) : St := fun k => u k + v k.
  Definition pscal (h : K) (v : St) : St := fun k => h * v k.
  Definition diag (E : St) (u : St) : St := fun k => E k * u k.                        (* mode-wise multiplication *)
  (* central difference quotient of f at u in direction v with step h *)
  Definition cdiff (f : St -> St) (u : St) (h : K) (v : St) : St :=
    fun k => (f (pert u h v) k - f (pert u (- h) v) k) / (two * h).
  (* <v, w> = sum_k v_k w_k over a list of modes: the (bilinear, not sesquilinear) pairing of the dot test *)
  Definition pairing (l : list I) (v w : St) : K := fsum (map (fun k => v k * w k) l).

  Definition linear1 (L : St -> St) : Prop := forall u h v k, L (pert u h v) k = L u k + h * L v k.
  Definition bilinear (B : St -> St -> St) : Prop :=
    (forall u h v w k, B (pert u h v) w k = B u w k + h * B v w k)
    /\ (forall w u h v k, B w (pert u h v) k = B w u k + h * B w v k).
  Definition trilinear (T : St -> St -> St -> St) : Prop :=
    (forall u h v a b k, T (pert u h v) a b k = T u a b k + h * T v a b k)
    /\ (forall a u h v b k, T a (pert u h v) b k = T a u b k + h * T a v b k)
    /\ (forall a b u h v k, T a b (pert u h v) k = T a b u k + h * T a b v k).
End Deriv.
Arguments pert {K I} u h v _. Arguments padd {K I} u v _. Arguments pscal {K I} h v _. Arguments diag {K I} E u _.
Arguments cdiff {K I} f u h v _. Arguments pairing {K I} l v w.
Arguments linear1 {K I} L. Arguments bilinear {K I} B. Arguments trilinear {K I} T.
