(* C07 at the algebraic level: derivatives of the model steppers.
   (b) maps linear in the state: Jacobian = the map, central differences exact;   (c) quadratic / cubic maps: product rule,
   exact central differences (remainder 0 resp. h^2 T(v,v,v));  prod2 / prod3 are bi- / trilinear;  dual evaluation of prod2 and
   of the single-channel convection term;   (d) the adjoint of a diagonal multiplier is itself;
   (e) ETD1 / ETD2RK tableaux: derivative with respect to the state given the derivative of the nonlinear term. *)
From Coq Require Import ZArith QArith List Bool Field Ring Lia.
From EXV Require Import Base.Scalar Base.FieldLemmas Base.Dual Base.DualProofs AD.Deriv Utils.Rollout
  Spectral.Symbols Layout.Freq Steppers.Linear Nonlin.Conv Nonlin.Terms ETDRK.Phi.
Import ListNotations.
Local Open Scope fld_scope.

Section Algebra.
  Variable F : FieldT.
  Add Field Ffa : (fth F).
  Variable I : Type.
  Notation St := (I -> F).
  Notation DF := (DualOps F).

  (* ---- (b) linear maps ---- *)
  Lemma diag_linear (E : St) : linear1 (diag E).
  Proof. intros u h v k. unfold diag, pert. ring. Qed.

  Lemma linear_fd_exact (L : St -> St) : linear1 L -> forall u h v k, h <> 0 -> cdiff L u h v k = L v k.
  Proof.
    intros HL u h v k Hh. unfold cdiff. rewrite !HL. unfold two. field.
    split; [exact Hh | exact (two_neq0 F)].
  Qed.

  (* dual evaluation of a diagonal multiplier with constant entries: Jacobian = the multiplier *)
  Lemma diag_dual (E u v : St) k :
    diag (K := DF) (dconstf E) (lift u v) k = mkdual (diag E u k) (diag E v k).
  Proof. unfold diag, dconstf, lift, dconst. apply dual_ext; cbn; ring. Qed.
  (* step (u + eps v) = step u + eps step v for every mode-wise multiplier: the Jacobian of a linear stepper is the stepper *)
  Definition dual_linear := diag_dual.

  Section LinearStep.
    Variable cexp : F -> F.
    Variable lam : St.
    Notation step dt := (linear_step F cexp I dt lam).
    Lemma linear_step_linear dt : linear1 (step dt).
    Proof. intros u h v k. unfold linear_step, pert. ring. Qed.

    (* u + eps v |-> step u + eps step v *)
    Lemma linear_step_dual dt (u v : St) k :
      linear_step DF (dlift cexp cexp) I (dconst dt) (dconstf lam) (lift u v) k
      = mkdual (step dt u k) (step dt v k).
    Proof. unfold linear_step, exp_term, dlift, dconstf, lift, dconst. apply dual_ext; cbn; ring. Qed.

    (* derivative with respect to dt (direction 1) and to the symbol (direction dlam): exp'(x) = exp(x) *)
    Lemma linear_step_dual_dt dt (u : St) k :
      linear_step DF (dlift cexp cexp) I (dvar dt) (dconstf lam) (dconstf u) k
      = mkdual (step dt u k) (lam k * step dt u k).
    Proof. unfold linear_step, exp_term, dlift, dconstf, dvar, dconst. apply dual_ext; cbn; ring. Qed.
    Lemma linear_step_dual_symbol dt (dlam u : St) k :
      linear_step DF (dlift cexp cexp) I (dconst dt) (lift lam dlam) (dconstf u) k
      = mkdual (step dt u k) (dt * dlam k * step dt u k).
    Proof. unfold linear_step, exp_term, dlift, dconstf, lift, dconst. apply dual_ext; cbn; ring. Qed.

    Lemma linear_step_ext (K : Ops) (ce : K -> K) (d : K) (l : I -> K) : ext_fun I (linear_step K ce I d l).
    Proof. intros p q H k. unfold linear_step. rewrite H. reflexivity. Qed.

    (* n steps (repeat / last entry of a rollout): the Jacobian is the n-step map *)
    Lemma iter_linear_step_dual dt n (u v : St) k :
      iter n (linear_step DF (dlift cexp cexp) I (dconst dt) (dconstf lam)) (lift u v) k
      = mkdual (iter n (step dt) u k) (iter n (step dt) v k).
    Proof.
      revert k. induction n as [|n IH]; intros k; cbn [iter]; [reflexivity|].
      transitivity (linear_step DF (dlift cexp cexp) I (dconst dt) (dconstf lam)
                      (lift (iter n (step dt) u) (iter n (step dt) v)) k).
      - apply linear_step_ext. exact IH.
      - apply linear_step_dual.
    Qed.
  End LinearStep.

  (* ---- (c) quadratic and cubic maps ---- *)
  Section Multilinear.
    Variable B : St -> St -> St.
    Hypothesis HB : bilinear B.
    Definition quad (u : St) : St := B u u.
    Definition Dquad (u v : St) : St := fun k => B u v k + B v u k.

    (* exact expansion q(u + h v) = q u + h Dq(u)[v] + h^2 q v *)
    Lemma quad_expand u h v k : quad (pert u h v) k = quad u k + h * Dquad u v k + h * h * quad v k.
    Proof. destruct HB as [H1 H2]. unfold quad, Dquad. rewrite H1, !H2. ring. Qed.

    (* central differences of a quadratic map are EXACT (no O(h^2) term) *)
    Lemma quad_fd_exact u h v k : h <> 0 -> cdiff quad u h v k = Dquad u v k.
    Proof.
      intros Hh. unfold cdiff. rewrite !quad_expand. unfold two. field.
      split; [exact Hh | exact (two_neq0 F)].
    Qed.

    Variable T : St -> St -> St -> St.
    Hypothesis HT : trilinear T.
    Definition cub (u : St) : St := T u u u.
    Definition Dcub (u v : St) : St := fun k => T v u u k + T u v u k + T u u v k.

    (* central differences of a cubic map: the remainder is exactly h^2 T(v,v,v) *)
    Lemma cub_fd_remainder u h v k : h <> 0 -> cdiff cub u h v k = Dcub u v k + h * h * cub v k.
    Proof.
      intros Hh. destruct HT as (H1 & H2 & H3). unfold cdiff, cub, Dcub.
      rewrite !H1, !H2, !H3. unfold two. field.
      split; [exact Hh | exact (two_neq0 F)].
    Qed.
  End Multilinear.

  (* ---- (d) adjoint of a diagonal multiplier ---- *)
  Lemma diag_self_adjoint (l : list I) (E v w : St) : pairing l (diag E v) w = pairing l v (diag E w).
  Proof. unfold pairing, diag. apply fsum_map_ext. intros k _. ring. Qed.

  (* adjoint of a composition: if A has adjoint A' and C has adjoint C' then A o C has adjoint C' o A' *)
  Lemma adjoint_compose (l : list I) (A A' C C' : St -> St) :
    (forall v w, pairing l (A v) w = pairing l v (A' w)) -> (forall v w, pairing l (C v) w = pairing l v (C' w)) ->
    forall v w, pairing l (A (C v)) w = pairing l v (C' (A' w)).
  Proof. intros HA HC v w. rewrite HA, HC. reflexivity. Qed.

  Lemma iter_diag_self_adjoint (l : list I) (E : St) n v w :
    pairing l (iter n (diag E) v) w = pairing l v (iter n (diag E) w).
  Proof.
    revert v w. induction n as [|n IH]; intros v w; cbn [iter]; [reflexivity|].
    rewrite diag_self_adjoint, IH. clear IH.
    assert (Hc : forall m x k, diag E (iter m (diag E) x) k = iter m (diag E) (diag E x) k).
    { induction m as [|m IHm]; intros x k; cbn [iter]; [reflexivity|]. unfold diag at 1 3. rewrite IHm. reflexivity. }
    unfold pairing. apply fsum_map_ext. intros k _. rewrite <- Hc. reflexivity.
  Qed.

  (* ---- (e) ETD tableaux: derivative with respect to the state ---- *)
  Section ETD.
    Variables (h : F) (z E : St).
    Variable N : St -> St.
    Variable ND : (I -> DF) -> (I -> DF).
    Variable DN : St -> St -> St.
    Hypothesis HN : dual_deriv F I ND N DN.          (* the nonlinear term evaluated on dual numbers: value and derivative *)

    Lemma phi1_const x e : phi1 (K := DF) (dconst x) (dconst e) = dconst (phi1 x e).
    Proof. unfold phi1, phi0, dconst. apply dual_ext; cbn; [reflexivity|]. rewrite !fdiv_def. ring. Qed.
    Lemma phi2_const x e : phi2 (K := DF) (dconst x) (dconst e) = dconst (phi2 x e).
    Proof. unfold phi2. rewrite phi1_const. unfold dconst. apply dual_ext; cbn; [reflexivity|]. rewrite !fdiv_def. ring. Qed.

    Definition Detd1 (u v : St) : St := fun k => E k * v k + h * (phi1 (z k) (E k) * DN u v k).

    Lemma etd1_dual : dual_deriv F I (etd1 (K := DF) (dconst h) (dconstf z) (dconstf E) ND) (etd1 h z E N) Detd1.
    Proof.
      intros u v k. unfold etd1, Detd1, dconstf. rewrite phi1_const, HN. unfold lift, dconst.
      apply dual_ext; cbn; ring.
    Qed.

    (* for a linear "nonlinearity" the ETD1 Jacobian is the ETD1 map of the linearised problem *)
    Hypothesis EN : ext_fun I ND.
    Definition Detd2rk (u v : St) : St :=
      let a := etd1 h z E N u in
      let Da := Detd1 u v in
      fun k => E k * v k + h * ((phi1 (z k) (E k) - phi2 (z k) (E k)) * DN u v k + phi2 (z k) (E k) * DN a Da k).

    Lemma etd1_stage_dual u v k :
      ND (etd1 (K := DF) (dconst h) (dconstf z) (dconstf E) ND (lift u v)) k
      = mkdual (N (etd1 h z E N u) k) (DN (etd1 h z E N u) (Detd1 u v) k).
    Proof. rewrite <- HN. apply EN. intros j. apply etd1_dual. Qed.

    Lemma etd2rk_dual : dual_deriv F I (etd2rk (K := DF) (dconst h) (dconstf z) (dconstf E) ND) (etd2rk h z E N) Detd2rk.
    Proof.
      intros u v k. assert (Ha := etd1_stage_dual u v k).
      unfold etd2rk, Detd2rk, Detd1, etd1 in *. cbv zeta. rewrite Ha. clear Ha.
      unfold dconstf. rewrite phi1_const, phi2_const, HN. unfold lift, dconst.
      apply dual_ext; cbn; ring.
    Qed.
  End ETD.
End Algebra.

(* ---- the pseudo-spectral products are multilinear; their dual evaluation is the product rule ---- *)
Section Products.
  Variable F : FieldT.
  Add Field Ffp : (fth F).
  Notation DF := (DualOps F).
  Variables (D : nat) (N Kc : Z).
  Notation fld := (field F).

  Lemma msk_pert (U V : fld) h x : msk F Kc (pert U h V) x = msk F Kc U x + h * msk F Kc V x.
  Proof. unfold msk, pert. destruct (in_band Kc x); ring. Qed.

  Lemma cconv2_bilinear : bilinear (cconv2 F D N Kc).
  Proof.
    split; intros; unfold cconv2.
    - rewrite <- fsum_map_scal, <- fsum_map_add. apply fsum_map_ext. intros m _. rewrite msk_pert. ring.
    - rewrite <- fsum_map_scal, <- fsum_map_add. apply fsum_map_ext. intros m _. rewrite msk_pert. ring.
  Qed.

  Lemma prod2_bilinear : bilinear (prod2 F D N Kc).
  Proof.
    destruct cconv2_bilinear as [H1 H2].
    split; intros; unfold prod2, msk; destruct (in_band Kc k); try ring.
    - rewrite H1. ring.
    - rewrite H2. ring.
  Qed.

  Lemma cconv3_trilinear : trilinear (cconv3 F D N Kc).
  Proof.
    repeat split; intros; unfold cconv3.
    - rewrite <- fsum_map_scal, <- fsum_map_add. apply fsum_map_ext. intros m1 _.
      rewrite <- fsum_map_scal, <- fsum_map_add. apply fsum_map_ext. intros m2 _. rewrite msk_pert. ring.
    - rewrite <- fsum_map_scal, <- fsum_map_add. apply fsum_map_ext. intros m1 _.
      rewrite <- fsum_map_scal, <- fsum_map_add. apply fsum_map_ext. intros m2 _. rewrite msk_pert. ring.
    - rewrite <- fsum_map_scal, <- fsum_map_add. apply fsum_map_ext. intros m1 _.
      rewrite <- fsum_map_scal, <- fsum_map_add. apply fsum_map_ext. intros m2 _. rewrite msk_pert. ring.
  Qed.

  Lemma prod3_trilinear : trilinear (prod3 F D N Kc).
  Proof.
    destruct cconv3_trilinear as (H1 & H2 & H3).
    repeat split; intros; unfold prod3, msk; destruct (in_band Kc k); try ring.
    - rewrite H1. ring.
    - rewrite H2. ring.
    - rewrite H3. ring.
  Qed.

  (* dual evaluation *)
  Lemma msk_lift (U V : fld) x : msk DF Kc (lift U V) x = mkdual (msk F Kc U x) (msk F Kc V x).
  Proof. unfold msk, lift. destruct (in_band Kc x); reflexivity. Qed.

  Lemma nfac_dual : nfac DF D N = dconst (nfac F D N).
  Proof. unfold nfac. rewrite dual_fz, dual_fpow_const. apply (dconst_div F 1). Qed.

  Lemma cconv2_dual (U V U' V' : fld) k :
    cconv2 DF D N Kc (lift U V) (lift U' V') k
    = mkdual (cconv2 F D N Kc U U' k) (cconv2 F D N Kc V U' k + cconv2 F D N Kc U V' k).
  Proof.
    unfold cconv2. rewrite dual_fsum_map. apply dual_ext; cbn [val eps].
    - apply fsum_map_ext. intros m _. rewrite !msk_lift. reflexivity.
    - rewrite <- fsum_map_add. apply fsum_map_ext. intros m _. rewrite !msk_lift. reflexivity.
  Qed.

  (* product rule for the pseudo-spectral product: D prod2(U,U')[V,V'] = prod2(V,U') + prod2(U,V') *)
  Lemma prod2_dual (U V U' V' : fld) k :
    prod2 DF D N Kc (lift U V) (lift U' V') k
    = mkdual (prod2 F D N Kc U U' k) (prod2 F D N Kc V U' k + prod2 F D N Kc U V' k).
  Proof.
    unfold prod2, msk. destruct (in_band Kc k).
    - rewrite nfac_dual, cconv2_dual. unfold dconst. apply dual_ext; cbn; ring.
    - apply dual_ext; cbn; ring.
  Qed.

  (* the single-channel conservative convection term -b/2 (sum_c d_c)(u^2) evaluated on dual numbers:
     value = the term, eps-part = the same term with the product replaced by its symmetrised derivative 2 u v *)
  Variables (ii s : F).
  Lemma dc_dual c k : dc DF (dconst ii) (dconst s) c k = dconst (dc F ii s c k).
  Proof. unfold dc. rewrite dual_fz. unfold dconst. apply dual_ext; cbn; ring. Qed.

  Lemma fsumf_dc_dual (l : list nat) k :
    fsumf DF (map (dc DF (dconst ii) (dconst s)) l) k = dconst (fsumf F (map (dc F ii s) l) k).
  Proof.
    unfold fsumf. induction l as [|c l IH]; cbn [map fsum]; [reflexivity|].
    rewrite IH, dc_dual. unfold dconst. apply dual_ext; cbn; ring.
  Qed.

  Lemma half_dual : Terms.half DF = dconst (Terms.half F).
  Proof. unfold Terms.half. rewrite dual_fz. apply (dconst_div F 1). Qed.

  Lemma conv_sc_cons_dual (Dx : nat) (b : F) (U V : fld) k :
    conv_sc_cons DF (prod2 DF D N Kc) (dconst ii) (dconst s) Dx (dconst b) (lift U V) k
    = mkdual (conv_sc_cons F (prod2 F D N Kc) ii s Dx b U k)
             (conv_sc_cons F (fun A _ => Dquad F idx (prod2 F D N Kc) A V) ii s Dx b U k).
  Proof.
    unfold conv_sc_cons, fscal, fmulp, axes, Dquad. rewrite fsumf_dc_dual, half_dual, prod2_dual.
    unfold dconst. apply dual_ext; cbn; ring.
  Qed.

  (* derivative with respect to the scale b (the term is linear in b) *)
  Lemma conv_sc_cons_dual_scale (Dx : nat) (b db : F) (U : fld) k :
    conv_sc_cons DF (prod2 DF D N Kc) (dconst ii) (dconst s) Dx (mkdual b db) (dconstf U) k
    = mkdual (conv_sc_cons F (prod2 F D N Kc) ii s Dx b U k) (conv_sc_cons F (prod2 F D N Kc) ii s Dx db U k).
  Proof.
    unfold conv_sc_cons, fscal, fmulp, axes. rewrite fsumf_dc_dual, half_dual.
    change (dconstf U) with (lift U (fun _ : idx => (0 : F))). rewrite prod2_dual.
    assert (Z1 : prod2 F D N Kc (fun _ => 0) U k = 0).
    { unfold prod2, msk, cconv2. destruct (in_band Kc k); [|reflexivity].
      rewrite (fsum_map_ext F _ _ (fun _ => 0)); [rewrite fsum_map_zero; ring|].
      intros m _. unfold msk. destruct (in_band Kc m); ring. }
    assert (Z2 : prod2 F D N Kc U (fun _ => 0) k = 0).
    { unfold prod2, msk, cconv2. destruct (in_band Kc k); [|reflexivity].
      rewrite (fsum_map_ext F _ _ (fun _ => 0)); [rewrite fsum_map_zero; ring|].
      intros m _. unfold msk. destruct (in_band Kc (wrapD N (subi k m))); ring. }
    rewrite Z1, Z2. unfold dconst. apply dual_ext; cbn; ring.
  Qed.
End Products.

(* ---- the wave step is linear in (h, v): its Jacobian is the step itself ---- *)
Section Wave.
  Variable F : FieldT.
  Add Field Ffw : (fth F).
  Notation DF := (DualOps F).
  Variables ii s c rho dt Ep Em : F.
  Hypothesis ii_nz : ii <> 0.
  Hypothesis c_nz : c <> 0.

  Lemma wave_mode_dual (is_dc : bool) (h dh v dv : F) :
    wave_mode DF (dconst ii) (dconst s) (dconst c) (dconst rho) (dconst dt) (dconst Ep) (dconst Em) is_dc (mkdual h dh) (mkdual v dv)
    = (mkdual (fst (wave_mode F ii s c rho dt Ep Em is_dc h v)) (fst (wave_mode F ii s c rho dt Ep Em is_dc dh dv)),
       mkdual (snd (wave_mode F ii s c rho dt Ep Em is_dc h v)) (snd (wave_mode F ii s c rho dt Ep Em is_dc dh dv))).
  Proof.
    unfold wave_mode. cbv zeta.
    change (@oeqb DF (dconst rho) 0) with (oeqb rho 0).
    assert (H1 : (1 : F) <> 0) by apply f_1_neq_0.
    destruct (oeqb rho 0) eqn:Er.
    - destruct is_dc; cbn [fst snd]; f_equal; apply dual_ext; cbn; field; repeat split; assumption.
    - assert (Hr : rho <> 0) by (apply (feqb_false F); exact Er).
      destruct is_dc; cbn [fst snd]; f_equal; apply dual_ext; cbn; field; repeat split; assumption.
  Qed.
End Wave.

(* ---- linear symbols: derivative with respect to the coefficients ---- *)
Section Symbols.
  Variable F : FieldT.
  Add Field Ffs : (fth F).
  Notation DF := (DualOps F).

  Lemma map_dconst_pow_sum (aj daj : F) (j : nat) (d : list F) :
    @fsum DF (map (fun x => (mkdual aj daj : DF) * fpow x j) (map dconst d))
    = mkdual (fsum (map (fun x => aj * fpow x j) d)) (fsum (map (fun x => daj * fpow x j) d)).
  Proof.
    induction d as [|x d IH]; cbn [map fsum]; [reflexivity|].
    rewrite IH, dual_fpow_const. unfold dconst. apply dual_ext; cbn; ring.
  Qed.

  Lemma laplace_sym_const n (d : list F) : laplace_sym DF n (map dconst d) = dconst (laplace_sym F n d).
  Proof.
    unfold laplace_sym. destruct n as [|n]; [reflexivity|].
    induction d as [|x d IH]; cbn [map fsum]; [reflexivity|].
    rewrite IH, dual_fpow_const. unfold dconst. apply dual_ext; cbn; ring.
  Qed.

  (* generic steppers: the symbol is linear in the coefficient list; its derivative in direction da is the symbol of da *)
  Lemma poly_sym_dual_from (s0 : nat) (a da : list F) (d : list F) : length a = length da ->
    @fsum DF (imap_from s0 (fun j (aj : DF) => fsum (map (fun x => aj * fpow x j) (map dconst d))) (map2 mkdual a da))
    = mkdual (fsum (imap_from s0 (fun j aj => fsum (map (fun x => aj * fpow x j) d)) a))
             (fsum (imap_from s0 (fun j aj => fsum (map (fun x => aj * fpow x j) d)) da)).
  Proof.
    revert s0 da. induction a as [|aj a IH]; intros s0 [|daj da] H; cbn [length] in H; try discriminate.
    - reflexivity.
    - cbn [map2 imap_from fsum]. rewrite IH by (injection H; auto). rewrite map_dconst_pow_sum.
      apply dual_ext; cbn; ring.
  Qed.

  Lemma poly_sym_dual (a da d : list F) : length a = length da ->
    poly_sym DF (map2 mkdual a da) (map dconst d) = mkdual (poly_sym F a d) (poly_sym F da d).
  Proof. intros H. unfold poly_sym, imap. apply poly_sym_dual_from. exact H. Qed.

  Lemma sym_burgers_dual nu dnu (d : list F) :
    sym_burgers DF (mkdual nu dnu) (map dconst d) = mkdual (sym_burgers F nu d) (dnu * laplace_sym F 2 d).
  Proof. unfold sym_burgers. rewrite laplace_sym_const. unfold dconst. apply dual_ext; cbn; ring. Qed.

  Lemma sym_ks_dual s2 ds2 s4 ds4 (d : list F) :
    sym_ks DF (mkdual s2 ds2) (mkdual s4 ds4) (map dconst d)
    = mkdual (sym_ks F s2 s4 d) (- ds2 * laplace_sym F 2 d - ds4 * laplace_sym F 4 d).
  Proof. unfold sym_ks. rewrite !laplace_sym_const. unfold dconst. apply dual_ext; cbn; ring. Qed.

  (* a symbol that is NOT linear in its coefficients: Swift-Hohenberg r - (kc + Lap)^2;  d/dkc = -2 (kc + Lap) *)
  Lemma sym_swift_hohenberg_dual r dr kc dkc (d : list F) :
    sym_swift_hohenberg DF (mkdual r dr) (mkdual kc dkc) (map dconst d)
    = mkdual (sym_swift_hohenberg F r kc d) (dr - fz 2 * (kc + laplace_sym F 2 d) * dkc).
  Proof.
    unfold sym_swift_hohenberg. rewrite laplace_sym_const. unfold dconst. apply dual_ext; cbn; ring.
  Qed.
End Symbols.

(* ---- extensionality of the model terms over ANY Ops (needed to push dual states through stages and iterations) ---- *)
Section Ext.
  Variable K : Ops.
  Variables (D : nat) (N Kc : Z).
  Lemma msk_ext_any (p q : field K) x : (forall y, p y = q y) -> msk K Kc p x = msk K Kc q x.
  Proof. intros H. unfold msk. rewrite H. reflexivity. Qed.
  Lemma prod2_ext (p q p' q' : field K) k :
    (forall x, p x = q x) -> (forall x, p' x = q' x) -> prod2 K D N Kc p p' k = prod2 K D N Kc q q' k.
  Proof.
    intros H H'. unfold prod2, msk, cconv2. destruct (in_band Kc k); [|reflexivity].
    f_equal. f_equal. apply map_ext. intros m. rewrite (msk_ext_any p q m H), (msk_ext_any p' q' _ H'). reflexivity.
  Qed.
  Lemma conv_sc_cons_ext (ii s b : K) (Dx : nat) : ext_fun idx (conv_sc_cons K (prod2 K D N Kc) ii s Dx b).
  Proof. intros p q H k. unfold conv_sc_cons, fscal, fmulp. rewrite (prod2_ext p q p q k H H). reflexivity. Qed.
End Ext.

(* ---- a complete instance: the ETD1 / ETD2RK Burgers-type step (single-channel conservative convection) ---- *)
Section BurgersStep.
  Variable F : FieldT.
  Notation DF := (DualOps F).
  Variables (D : nat) (N Kc : Z) (ii s b : F) (Dx : nat).
  Variables (h : F) (z E : field F).
  Notation NL := (conv_sc_cons F (prod2 F D N Kc) ii s Dx b).
  Notation NLD := (conv_sc_cons DF (prod2 DF D N Kc) (dconst ii) (dconst s) Dx (dconst b)).
  Notation DNL := (fun U V => conv_sc_cons F (fun A _ => Dquad F idx (prod2 F D N Kc) A V) ii s Dx b U).

  Lemma burgers_nl_dual : dual_deriv F idx NLD NL DNL.
  Proof. intros u v k. apply conv_sc_cons_dual. Qed.

  Lemma burgers_etd1_dual :
    dual_deriv F idx (etd1 (K := DF) (dconst h) (dconstf z) (dconstf E) NLD) (etd1 h z E NL) (Detd1 F idx h z E DNL).
  Proof. apply etd1_dual. exact burgers_nl_dual. Qed.

  Lemma burgers_etd2rk_dual :
    dual_deriv F idx (etd2rk (K := DF) (dconst h) (dconstf z) (dconstf E) NLD) (etd2rk h z E NL) (Detd2rk F idx h z E NL DNL).
  Proof. apply etd2rk_dual; [exact burgers_nl_dual | apply conv_sc_cons_ext]. Qed.
End BurgersStep.

(* ---- ETD3RK and ETD4RK: derivative with respect to the state, stage by stage (chain rule through the stages) ---- *)
Section StageDefs.
  (* the stages of ETDRK/Phi.v named, generic in K (the tableaux unfold to these by conversion) *)
  Variable K : Ops.
  Variable I : Type.
  Variables (h : K) (z E Eh : I -> K).
  Variable N : (I -> K) -> (I -> K).
  Definition stA (u : I -> K) : I -> K := fun k => Eh k * u k + h * (phi1 (Phi.half (z k)) (Eh k) / fz 2 * N u k).
  Definition st3B (u a : I -> K) : I -> K :=
    fun k => E k * u k + h * (- phi1 (z k) (E k) * N u k + fz 2 * phi1 (z k) (E k) * N a k).
  Definition st4B (u a : I -> K) : I -> K := fun k => Eh k * u k + h * (phi1 (Phi.half (z k)) (Eh k) / fz 2 * N a k).
  Definition st4C (u a b : I -> K) : I -> K :=
    fun k => Eh k * a k + h * (phi1 (Phi.half (z k)) (Eh k) / fz 2 * (fz 2 * N b k - N u k)).
  Lemma etd3rk_stages u k :
    etd3rk h z E Eh N u k
    = E k * u k + h * ((phi1 (z k) (E k) - fz 3 * phi2 (z k) (E k) + fz 4 * phi3 (z k) (E k)) * N u k
                       + (fz 4 * phi2 (z k) (E k) - fz 8 * phi3 (z k) (E k)) * N (stA u) k
                       + (- phi2 (z k) (E k) + fz 4 * phi3 (z k) (E k)) * N (st3B u (stA u)) k).
  Proof. reflexivity. Qed.
  Lemma etd4rk_stages u k :
    etd4rk h z E Eh N u k
    = E k * u k + h * ((phi1 (z k) (E k) - fz 3 * phi2 (z k) (E k) + fz 4 * phi3 (z k) (E k)) * N u k
                       + (fz 2 * phi2 (z k) (E k) - fz 4 * phi3 (z k) (E k)) * (N (stA u) k + N (st4B u (stA u)) k)
                       + (- phi2 (z k) (E k) + fz 4 * phi3 (z k) (E k)) * N (st4C u (stA u) (st4B u (stA u))) k).
  Proof. reflexivity. Qed.
End StageDefs.

Section ETD34.
  Variable F : FieldT.
  Add Field Ff34 : (fth F).
  Variable I : Type.
  Notation St := (I -> F).
  Notation DF := (DualOps F).
  Variables (h : F) (z E Eh : St).
  Variable N : St -> St.
  Variable ND : (I -> DF) -> (I -> DF).
  Variable DN : St -> St -> St.
  Hypothesis HN : dual_deriv F I ND N DN.
  Hypothesis EN : ext_fun I ND.

  Lemma half_const x : Phi.half (K := DF) (dconst x) = dconst (Phi.half x).
  Proof. unfold Phi.half, dconst. apply dual_ext; cbn; [reflexivity|]. rewrite !fdiv_def. ring. Qed.
  Lemma phi3_const x e : phi3 (K := DF) (dconst x) (dconst e) = dconst (phi3 x e).
  Proof. unfold phi3. rewrite (phi2_const F). unfold dconst. apply dual_ext; cbn; [reflexivity|]. rewrite !fdiv_def. ring. Qed.

  Ltac dsolve := unfold lift, dconst; apply dual_ext; cbn; rewrite ?fdiv_def; ring.

  (* derivative of the stages *)
  Definition DstA (u v : St) : St := fun k => Eh k * v k + h * (phi1 (Phi.half (z k)) (Eh k) / fz 2 * DN u v k).
  Definition Dst3B (u a v da : St) : St :=
    fun k => E k * v k + h * (- phi1 (z k) (E k) * DN u v k + fz 2 * phi1 (z k) (E k) * DN a da k).
  Definition Dst4B (u a v da : St) : St := fun k => Eh k * v k + h * (phi1 (Phi.half (z k)) (Eh k) / fz 2 * DN a da k).
  Definition Dst4C (u a b v da db : St) : St :=
    fun k => Eh k * da k + h * (phi1 (Phi.half (z k)) (Eh k) / fz 2 * (fz 2 * DN b db k - DN u v k)).

  Notation hD := (dconst h : DF).
  Notation zD := (dconstf z). Notation ED := (dconstf E). Notation EhD := (dconstf Eh).

  Lemma stA_dual u v k : stA DF I hD zD EhD ND (lift u v) k = lift (stA F I h z Eh N u) (DstA u v) k.
  Proof. unfold stA, DstA, dconstf. rewrite half_const, (phi1_const F), HN. dsolve. Qed.

  Lemma ND_at (p : I -> DF) (a da : St) k : (forall j, p j = lift a da j) -> ND p k = mkdual (N a k) (DN a da k).
  Proof. intros H. rewrite <- HN. apply EN. exact H. Qed.

  Lemma st3B_dual u v (aD : I -> DF) a da k : (forall j, aD j = lift a da j) ->
    st3B DF I hD zD ED ND (lift u v) aD k = lift (st3B F I h z E N u a) (Dst3B u a v da) k.
  Proof. intros Ha. unfold st3B, Dst3B, dconstf. rewrite (phi1_const F), HN, (ND_at aD a da k Ha). dsolve. Qed.

  Lemma st4C_dual u v (aD bD : I -> DF) a da b db k : (forall j, aD j = lift a da j) -> (forall j, bD j = lift b db j) ->
    st4C DF I hD zD EhD ND (lift u v) aD bD k = lift (st4C F I h z Eh N u a b) (Dst4C u a b v da db) k.
  Proof.
    intros Ha Hb. unfold st4C, Dst4C, dconstf. rewrite half_const, (phi1_const F), HN, (ND_at bD b db k Hb), Ha. dsolve.
  Qed.

  Definition Detd3rk (u v : St) : St :=
    let a := stA F I h z Eh N u in let da := DstA u v in
    let b := st3B F I h z E N u a in let db := Dst3B u a v da in
    fun k => E k * v k + h * ((phi1 (z k) (E k) - fz 3 * phi2 (z k) (E k) + fz 4 * phi3 (z k) (E k)) * DN u v k
                              + (fz 4 * phi2 (z k) (E k) - fz 8 * phi3 (z k) (E k)) * DN a da k
                              + (- phi2 (z k) (E k) + fz 4 * phi3 (z k) (E k)) * DN b db k).

  Lemma etd3rk_dual : dual_deriv F I (etd3rk (K := DF) hD zD ED EhD ND) (etd3rk h z E Eh N) Detd3rk.
  Proof.
    intros u v k. rewrite !etd3rk_stages. unfold Detd3rk. cbv zeta.
    rewrite HN.
    rewrite (ND_at _ _ _ k (stA_dual u v)).
    rewrite (ND_at _ _ _ k (fun j => st3B_dual u v _ _ _ j (stA_dual u v))).
    unfold dconstf. rewrite (phi1_const F), (phi2_const F), phi3_const. dsolve.
  Qed.

  Definition Detd4rk (u v : St) : St :=
    let a := stA F I h z Eh N u in let da := DstA u v in
    let b := st4B F I h z Eh N u a in let db := Dst4B u a v da in
    let c := st4C F I h z Eh N u a b in let dc := Dst4C u a b v da db in
    fun k => E k * v k + h * ((phi1 (z k) (E k) - fz 3 * phi2 (z k) (E k) + fz 4 * phi3 (z k) (E k)) * DN u v k
                              + (fz 2 * phi2 (z k) (E k) - fz 4 * phi3 (z k) (E k)) * (DN a da k + DN b db k)
                              + (- phi2 (z k) (E k) + fz 4 * phi3 (z k) (E k)) * DN c dc k).

  Lemma st4B_dual u v (aD : I -> DF) a da k : (forall j, aD j = lift a da j) ->
    st4B DF I hD zD EhD ND (lift u v) aD k = lift (st4B F I h z Eh N u a) (Dst4B u a v da) k.
  Proof. intros Ha. unfold st4B, Dst4B, dconstf. rewrite half_const, (phi1_const F), (ND_at aD a da k Ha). dsolve. Qed.

  Lemma etd4rk_dual : dual_deriv F I (etd4rk (K := DF) hD zD ED EhD ND) (etd4rk h z E Eh N) Detd4rk.
  Proof.
    intros u v k. rewrite !etd4rk_stages. unfold Detd4rk. cbv zeta.
    pose proof (stA_dual u v) as Sa.
    pose proof (fun j => st4B_dual u v _ _ _ j Sa) as Sb.
    pose proof (fun j => st4C_dual u v _ _ _ _ _ _ j Sa Sb) as Sc.
    rewrite HN, (ND_at _ _ _ k Sa), (ND_at _ _ _ k Sb), (ND_at _ _ _ k Sc).
    unfold dconstf. rewrite (phi1_const F), (phi2_const F), phi3_const. dsolve.
  Qed.
End ETD34.
