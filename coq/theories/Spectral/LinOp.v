(* The documented PDEs of the linear steppers as a deep embedding of constant-coefficient differential operators
   (transcribed from the class docstrings, NOT from the code), their symbols, and the theorem that each
   hand-written code symbol (Spectral/Symbols.v) is the symbol of its documented operator.
   Symbol calculus: the operator  sum_t c_t prod_c d/dx_c^{alpha_c}  acts on exp(i kappa.x) as multiplication by
   sum_t c_t prod_c (i kappa_c)^{alpha_c}  (this rule for exponentials is the one analytic fact used and is not re-proved). *)
From Coq Require Import ZArith QArith List Bool Field Ring Lia.
From EXV Require Import Base.Scalar Base.FieldLemmas Spectral.Symbols.
Import ListNotations.
Local Open Scope fld_scope.

Section LinOp.
  Variable K : Ops.
  Definition term : Type := (K * list nat)%type.          (* coefficient, multi-index *)
  Definition mono (d : list K) (alpha : list nat) : K := fprod (map2 (fun x a => fpow x a) d alpha).
  Definition symbol_of (P : list term) (d : list K) : K := fsum (map (fun t => fst t * mono d (snd t)) P).

  Definition unit_idx (n c m : nat) : list nat := map (fun j => if Nat.eqb j c then m else O) (seq 0 n).
  Definition add_idx (a b : list nat) : list nat := map2 Nat.add a b.
  Definition axes (n : nat) : list nat := seq 0 n.

  (* u_t = - v . grad u *)
  Definition pde_advection (v : list K) : list term :=
    imap (fun c vc => (- vc, unit_idx (length v) c 1)) v.
  (* u_t = div (A grad u) = sum_ij A_ij d_i d_j u *)
  Definition pde_diffusion (A : list (list K)) : list term :=
    concat (imap (fun i row => imap (fun j aij => (aij, add_idx (unit_idx (length A) i 1) (unit_idx (length A) j 1))) row) A).
  Definition pde_advection_diffusion (v : list K) (A : list (list K)) : list term := pde_advection v ++ pde_diffusion A.
  (* u_t = xi . (grad o grad o grad) u = sum_c xi_c d_c^3 u      (advect_on_diffusion = False)
     u_t = xi . grad (Laplace u)      = sum_c sum_j xi_c d_c d_j^2 u   (True) *)
  Definition pde_dispersion (flag : bool) (xi : list K) : list term :=
    let n := length xi in
    if flag then concat (imap (fun c xc => map (fun j => (xc, add_idx (unit_idx n c 1) (unit_idx n j 2))) (axes n)) xi)
    else imap (fun c xc => (xc, unit_idx n c 3)) xi.
  (* u_t = - mu sum_c d_c^4 u  (False);   u_t = - mu Laplace (Laplace u) = - mu sum_ij d_i^2 d_j^2 u  (True) *)
  Definition pde_hyper_diffusion (flag : bool) (mu : K) (n : nat) : list term :=
    if flag then concat (map (fun i => map (fun j => (- mu, add_idx (unit_idx n i 2) (unit_idx n j 2))) (axes n)) (axes n))
    else map (fun c => (- mu, unit_idx n c 4)) (axes n).
  (* u_t = sum_j a_j (1 . grad^j) u = sum_j a_j sum_c d_c^j u *)
  Definition pde_general (a : list K) (n : nat) : list term :=
    concat (imap (fun j aj => map (fun c => (aj, unit_idx n c j)) (axes n)) a).
End LinOp.

Section LinOpProofs.
  Variable F : FieldT.
  Add Field Ff : (fth F).
  Ltac crunch := unfold symbol_of, mono, pde_advection, pde_diffusion, pde_advection_diffusion, pde_dispersion, pde_hyper_diffusion,
                   pde_general, unit_idx, add_idx, axes, sym_advection, sym_diffusion, sym_advection_diffusion, sym_dispersion,
                   sym_hyper_diffusion, poly_sym, quad_form, gip_sym, laplace_sym, imap;
                 cbn [imap_from map map2 fsum fprod fpow length seq Nat.eqb Nat.add concat app fst snd fz fpos]; try ring.

  (* D = 1, 2, 3: vectors / matrices of matching size *)
  Lemma advection_is_documented (v d : list F) : length v = length d -> (1 <= length d <= 3)%nat ->
    sym_advection F v d = symbol_of F (pde_advection F v) d.
  Proof.
    intros H1 H2. destruct d as [|d1 [|d2 [|d3 [|]]]]; cbn [length] in *; try lia;
      destruct v as [|v1 [|v2 [|v3 [|]]]]; cbn [length] in *; try lia; crunch.
  Qed.

  Lemma diffusion_is_documented_1 a11 d1 : sym_diffusion F [[a11]] [d1] = symbol_of F (pde_diffusion F [[a11]]) [d1].
  Proof. crunch. Qed.
  Lemma diffusion_is_documented_2 a11 a12 a21 a22 d1 d2 :
    sym_diffusion F [[a11; a12]; [a21; a22]] [d1; d2] = symbol_of F (pde_diffusion F [[a11; a12]; [a21; a22]]) [d1; d2].
  Proof. crunch. Qed.
  Lemma diffusion_is_documented_3 a11 a12 a13 a21 a22 a23 a31 a32 a33 d1 d2 d3 :
    sym_diffusion F [[a11; a12; a13]; [a21; a22; a23]; [a31; a32; a33]] [d1; d2; d3]
    = symbol_of F (pde_diffusion F [[a11; a12; a13]; [a21; a22; a23]; [a31; a32; a33]]) [d1; d2; d3].
  Proof. crunch. Qed.

  Lemma dispersion_is_documented (flag : bool) (xi d : list F) : length xi = length d -> (1 <= length d <= 3)%nat ->
    sym_dispersion F flag xi d = symbol_of F (pde_dispersion F flag xi) d.
  Proof.
    intros H1 H2. destruct d as [|d1 [|d2 [|d3 [|]]]]; cbn [length] in *; try lia;
      destruct xi as [|v1 [|v2 [|v3 [|]]]]; cbn [length] in *; try lia; destruct flag; crunch.
  Qed.

  Lemma hyper_diffusion_is_documented (flag : bool) (mu : F) (d : list F) : (1 <= length d <= 3)%nat ->
    sym_hyper_diffusion F flag mu d = symbol_of F (pde_hyper_diffusion F flag mu (length d)) d.
  Proof.
    intros H2. destruct d as [|d1 [|d2 [|d3 [|]]]]; cbn [length] in *; try lia; destruct flag; crunch.
  Qed.

  Lemma general_is_documented (a d : list F) : (length a <= 5)%nat -> (1 <= length d <= 3)%nat ->
    poly_sym F a d = symbol_of F (pde_general F a (length d)) d.
  Proof.
    intros H1 H2. destruct d as [|d1 [|d2 [|d3 [|]]]]; cbn [length] in *; try lia;
      destruct a as [|a0 [|a1 [|a2 [|a3 [|a4 [|]]]]]]; cbn [length] in *; try lia; crunch.
  Qed.
End LinOpProofs.
