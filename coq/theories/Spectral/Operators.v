(* Spectral differential operators mode by mode: derivative, Poisson solver, Leray projection / make_incompressible.
   Hand-written from exponax/_spectral.py (derivative, make_incompressible), _poisson.py, nonlin_fun/_leray.py.
   A vector field at one mode is a list of D complex coefficients u; d is the list of derivative-operator values
   d_c = i (2 pi / L) k_c at that mode.  No proofs in this file. *)
From Coq Require Import ZArith QArith List Bool.
From EXV Require Import Base.Scalar Spectral.Symbols.
Import ListNotations.
Local Open Scope fld_scope.

Section Operators.
  Variable K : Ops.
  (* derivative: multiply by d_c^order; output entry (channel, axis c) *)
  Definition deriv_mode (order : nat) (d : list K) (u : K) : list K := map (fun dc => fpow dc order * u) d.
  (* Poisson: _inv_operator = where(op == 0, 0, 1/op); step_fourier = - inv * f *)
  Definition poisson_mode (lam f : K) : K := - ((if oeqb lam 0 then 0 else 1 / lam) * f).
  (* divergence and gradient at one mode *)
  Definition divm (d u : list K) : K := fsum (map2 (fun dc uc => dc * uc) d u).
  Definition lapm (d : list K) : K := fsum (map (fun dc => dc * dc) d).
  (* Leray (nonlin_fun/_leray.py): inv = where(lap != 0, 1/lap, 0);  u + d * (-(inv * (d . u))) *)
  Definition leray_mode (d u : list K) : list K :=
    let inv := if oeqb (lapm d) 0 then 0 else 1 / lapm d in
    let p := - (inv * divm d u) in
    map2 (fun dc uc => uc + dc * p) d u.
  (* make_incompressible (_spectral.py): inv = where(lap == 0, 1, 1/lap); u - d * (inv * (d . u)) *)
  Definition make_incompressible_mode (d u : list K) : list K :=
    let inv := if oeqb (lapm d) 0 then 1 else 1 / lapm d in
    let p := inv * divm d u in
    map2 (fun dc uc => uc - dc * p) d u.
End Operators.
