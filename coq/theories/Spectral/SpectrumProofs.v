From Coq Require Import ZArith QArith List Bool Lia ZifyBool Field Ring.
From EXV Require Import Base.Scalar Base.FieldLemmas Layout.Freq Spectral.Spectrum.
Import ListNotations.
Ltac Zify.zify_post_hook ::= Z.to_euclidean_division_equations.

Section Bins.
  Local Open Scope Z_scope.
  Lemma norm2_nonneg k : 0 <= norm2 k.
  Proof. induction k as [|x k IH]; cbn [norm2 fold_right]; [lia | unfold norm2 in IH; nia]. Qed.

  Lemma in_bin_iff b k : 0 <= b ->
    in_bin b k = true <-> ((b = 0 \/ (2 * b - 1) * (2 * b - 1) <= 4 * norm2 k) /\ 4 * norm2 k < (2 * b + 1) * (2 * b + 1)).
  Proof.
    intros Hb. unfold in_bin. cbv zeta. rewrite andb_true_iff, orb_true_iff, !Z.leb_le, Z.ltb_lt. split.
    - intros [[H|H] H2]; split; try exact H2; [left; lia | right; exact H].
    - intros [[H|H] H2]; split; try exact H2; [left; lia | right; exact H].
  Qed.

  (* a mode lies in at most one bin *)
  Theorem bins_disjoint b b' k : 0 <= b -> 0 <= b' -> in_bin b k = true -> in_bin b' k = true -> b = b'.
  Proof.
    intros Hb Hb' H H'. apply in_bin_iff in H; [|exact Hb]. apply in_bin_iff in H'; [|exact Hb'].
    pose proof (norm2_nonneg k). destruct H as [[H|H] H2], H' as [[H'|H'] H2']; nia.
  Qed.

  (* the float comparison |k| >= b - 1/2, |k| < b + 1/2 never sits on a boundary: 4|k|^2 is never an odd square *)
  Theorem bin_margin b k : 4 * norm2 k <> (2 * b + 1) * (2 * b + 1).
  Proof. intro H. assert ((4 * norm2 k) mod 2 = ((2 * b + 1) * (2 * b + 1)) mod 2) by (rewrite H; reflexivity).
    replace ((2 * b + 1) * (2 * b + 1)) with (1 + (2 * b * b + 2 * b) * 2) in H0 by ring.
    rewrite Z.mod_add in H0 by lia. replace (4 * norm2 k) with (0 + (2 * norm2 k) * 2) in H0 by ring.
    rewrite Z.mod_add in H0 by lia. cbn in H0. discriminate. Qed.

  (* every mode inside the Nyquist sphere 4|k|^2 < (2 (N/2) + 1)^2 lies in exactly one of the bins 0..N/2; modes outside lie in none.
     The bin is round(|k|): (2b-1)^2 <= 4|k|^2 < (2b+1)^2. *)
  Theorem bin_exists N k : 0 <= N -> 4 * norm2 k < (2 * (N / 2) + 1) * (2 * (N / 2) + 1) ->
    exists b, 0 <= b <= N / 2 /\ in_bin b k = true.
  Proof.
    intros HN H. pose proof (norm2_nonneg k) as Hn.
    (* b = floor((isqrt(4 n2) + 1) / 2) *)
    set (r := Z.sqrt (4 * norm2 k)). pose proof (Z.sqrt_spec (4 * norm2 k) ltac:(lia)) as Hs. fold r in Hs.
    assert (Hr : 0 <= r) by (apply Z.sqrt_nonneg). cbv zeta in Hs. unfold Z.succ in Hs. clearbody r.
    exists ((r + 1) / 2). assert (Hq : 2 * ((r + 1) / 2) <= r + 1 < 2 * ((r + 1) / 2) + 2) by lia.
    set (b := (r + 1) / 2) in *. clearbody b. split.
    - split; [lia|]. assert (0 <= N / 2) by (apply Z.div_pos; lia). assert (r < 2 * (N / 2) + 1) by (apply Z.square_lt_simpl_nonneg; [lia | destruct Hs as [Hs1 Hs2]; generalize dependent (N / 2); intros M; intros; lia]). lia.
    - apply in_bin_iff; [lia|]. split.
      + destruct (Z.eq_dec b 0) as [E|E]; [left; exact E | right]. assert (2 * b - 1 <= r) by lia. assert (0 <= 2 * b - 1) by lia.
        assert ((2 * b - 1) * (2 * b - 1) <= r * r) by (apply Z.square_le_mono_nonneg; lia). lia.
      + assert (r + 1 <= 2 * b + 1) by lia.
        assert ((r + 1) * (r + 1) <= (2 * b + 1) * (2 * b + 1)) by (apply Z.square_le_mono_nonneg; lia). lia.
  Qed.

  Theorem bin_outside N b k : 0 <= b <= N / 2 -> (2 * (N / 2) + 1) * (2 * (N / 2) + 1) <= 4 * norm2 k -> in_bin b k = false.
  Proof.
    intros Hb H. destruct (in_bin b k) eqn:E; [|reflexivity]. apply in_bin_iff in E; [|lia]. destruct E as [_ E]. nia.
  Qed.
End Bins.

Section Quantities.
  Variable F : FieldT.
  Add Field Ff : (fth F).
  Local Open Scope fld_scope.
  Variables (N : Z) (ND : F).
  Hypothesis ND_nz : ND <> 0.
  Let two_nz : @fz F 2 <> 0. Proof. apply fz_neq0. discriminate. Qed.

  (* amplitude read-off: a cosine a cos(k.x + phi) has |u_hat| = N^D a / 2 at its stored mode (C04), the quantity is a;
     at a self-conjugate last-axis wavenumber (0 or Nyquist) the stored mode carries |u_hat| = N^D * a' and the quantity is a' *)
  Theorem amplitude_of_stored_mode (k : list Z) (a : F) :
    amplitude_q F N ND k (if axis_plain N (last k 0%Z) true then ND * a else ND * a / fz 2) = a.
  Proof. unfold amplitude_q, recon_scale. destruct (axis_plain N (last k 0%Z) true); cbn [fz fpos]; field; try split; auto; exact (two_neq0 F). Qed.

  (* power weights are the Parseval weights: quantity = wgt * |u_hat|^2 / (2 N^2D), wgt = 1 for self-conjugate last-axis modes, 2 otherwise;
     summing over the stored half spectrum gives mean(u^2)/2 (Parseval with these weights) *)
  Theorem power_is_parseval_weight (k : list Z) (a : F) :
    power_q F N ND k a = (if axis_plain N (last k 0%Z) true then 1 else fz 2) * (a * a) / (fz 2 * (ND * ND)).
  Proof. unfold power_q, recon_scale. destruct (axis_plain N (last k 0%Z) true); cbn [fz fpos]; field; repeat split; auto; exact (two_neq0 F). Qed.
End Quantities.

(* summing the binned spectrum over all bins 0..N/2 returns the total of the quantities of the modes inside the Nyquist sphere, each mode
   counted exactly once; the modes outside the sphere are dropped - for every list of stored modes (any D, any channel) *)
From EXV Require Import Nonlin.Conv Nonlin.MeanFree.
(* the limits of bin b at bin spacing 1, b -+ 1/2, doubled: the integers whose squares in_bin compares with 4 |k|^2 *)
Section Limits.
  Variable F : FieldT.
  Add Field Ffl : (fth F).
  Local Open Scope fld_scope.
  Lemma doubled_lower (b : Z) : (fz 2 : F) * (fz b - fz 1 / fz 2) = fz (2 * b - 1).
  Proof. rewrite fz_sub, fz_mul. cbn [fz fpos]. field. exact (two_neq0 F). Qed.
  Lemma doubled_upper (b : Z) : (fz 2 : F) * (fz b + fz 1 / fz 2) = fz (2 * b + 1).
  Proof. rewrite fz_add, fz_mul. cbn [fz fpos]. field. exact (two_neq0 F). Qed.
End Limits.

Section Total.
  Variable F : FieldT.
  Add Field Fft : (fth F).
  Local Open Scope fld_scope.

  Definition inside (N : Z) (k : list Z) : bool := (4 * norm2 k <? (2 * (N / 2) + 1) * (2 * (N / 2) + 1))%Z.

  Lemma fsum_unique {A} (P : A -> bool) (q : F) (l : list A) (b0 : A) :
    NoDup l -> In b0 l -> P b0 = true -> (forall b, In b l -> P b = true -> b = b0) ->
    fsum (map (fun b => if P b then q else 0) l) = q.
  Proof.
    intros Hnd. induction Hnd as [|a l Ha Hnd IH]; intros Hin HP Hu; [destruct Hin|]. cbn [map fsum].
    destruct Hin as [->|Hin].
    - rewrite HP. rewrite (fsum_map_ext F _ _ (fun _ => 0)); [rewrite fsum_map_zero; ring|].
      intros b Hb. destruct (P b) eqn:E; [|reflexivity]. exfalso. apply Ha. rewrite <- (Hu b (or_intror Hb) E). exact Hb.
    - destruct (P a) eqn:E; [exfalso; apply Ha; rewrite (Hu a (or_introl eq_refl) E); exact Hin|].
      rewrite IH; [ring | exact Hin | exact HP | intros b Hb; apply Hu; right; exact Hb].
  Qed.

  Lemma fsum_none {A} (P : A -> bool) (q : F) (l : list A) : (forall b, In b l -> P b = false) -> fsum (map (fun b => if P b then q else 0) l) = 0.
  Proof. intros H. rewrite (fsum_map_ext F _ _ (fun _ => 0)); [apply fsum_map_zero|]. intros b Hb. rewrite (H b Hb). reflexivity. Qed.

  Theorem bins_total (N : Z) (qs : list (list Z * F)) : (0 <= N)%Z ->
    fsum (map (fun b => bin_sum F b qs) (zrange 0 (N / 2))) = fsum (map (fun p => if inside N (fst p) then snd p else 0) qs).
  Proof.
    intros HN. unfold bin_sum. rewrite fsum_map_swap. apply fsum_map_ext. intros [k q] _. cbn [fst snd].
    assert (H2 : (0 <= N / 2)%Z) by (apply Z.div_pos; lia).
    unfold inside. destruct (Z.ltb_spec (4 * norm2 k) ((2 * (N / 2) + 1) * (2 * (N / 2) + 1))) as [Hin|Hout].
    - destruct (bin_exists N k HN Hin) as (b0 & Hb0 & Hbin).
      apply (fsum_unique (fun b => in_bin b k) q (zrange 0 (N / 2)) b0).
      + apply NoDup_zrange_from.
      + apply in_zrange. lia.
      + exact Hbin.
      + intros b Hb Hbb. apply in_zrange in Hb. apply (bins_disjoint b b0 k); try lia; assumption.
    - apply fsum_none. intros b Hb. apply in_zrange in Hb. apply (bin_outside N b k); lia.
  Qed.
End Total.
