(* Per-mode linear symbols, hand-written from every _build_linear_operator of exponax (and from
   build_laplace_operator / build_gradient_inner_product_operator in _spectral.py).
   K is the (complex) scalar field; a mode is described by the list d of its derivative-operator values,
   one per spatial axis: d_c = i * (2 pi / L) * k_c.  No proofs in this file.
   Tied to the code by the exact-rational correspondence of harness/props/c01.py (every class, every stored mode). *)
From Coq Require Import ZArith QArith List Bool.
From EXV Require Import Base.Scalar.
Import ListNotations.
Local Open Scope fld_scope.

Section Symbols.
  Variable K : Ops.

  Fixpoint map2 {A B C} (f : A -> B -> C) (l1 : list A) (l2 : list B) : list C :=
    match l1, l2 with a :: r1, b :: r2 => f a b :: map2 f r1 r2 | _, _ => [] end.

  (* index-aware map: element j (counted from s) *)
  Fixpoint imap_from {A B} (s : nat) (f : nat -> A -> B) (l : list A) : list B :=
    match l with [] => [] | a :: r => f s a :: imap_from (S s) f r end.
  Definition imap {A B} (f : nat -> A -> B) (l : list A) : list B := imap_from 0 f l.

  (* build_derivative_operator at one mode: integer wavenumbers k, scale s = 2 pi / L, ii = imaginary unit *)
  Definition dop (ii s : K) (k : list Z) : list K := map (fun kc => ii * (s * fz kc)) k.

  (* build_laplace_operator: sum_c d_c^order; order 0 is defined as 1 (NOT the number of axes) *)
  Definition laplace_sym (order : nat) (d : list K) : K :=
    match order with O => 1 | _ => fsum (map (fun x => fpow x order) d) end.

  (* build_gradient_inner_product_operator: sum_c v_c d_c^order *)
  Definition gip_sym (v : list K) (order : nat) (d : list K) : K :=
    fsum (map2 (fun vc dc => vc * fpow dc order) v d).

  (* generic steppers: sum_j a_j sum_c d_c^j   (for j = 0 every axis contributes: a_0 * D) *)
  Definition poly_sym (a : list K) (d : list K) : K :=
    fsum (imap (fun j aj => fsum (map (fun x => aj * fpow x j) d)) a).

  (* coefficient coercions done by the constructors: scalar -> constant vector, vector -> diagonal matrix *)
  Definition const_vec (c : K) (d : list K) : list K := map (fun _ => c) d.
  Definition diag_row (n i : nat) (x : K) : list K := map (fun j => if Nat.eqb i j then x else 0) (seq 0 n).
  Definition diag_mat (v : list K) : list (list K) := imap (fun i x => diag_row (length v) i x) v.

  (* ---- linear steppers ---- *)
  Definition sym_advection (v : list K) (d : list K) : K := - gip_sym v 1 d.
  (* full matrix A (list of rows): sum_ij A_ij d_i d_j *)
  Definition quad_form (A : list (list K)) (d : list K) : K :=
    fsum (map2 (fun row di => fsum (map2 (fun aij dj => aij * (di * dj)) row d)) A d).
  Definition sym_diffusion (A : list (list K)) (d : list K) : K := quad_form A d.
  Definition sym_advection_diffusion (v : list K) (A : list (list K)) (d : list K) : K :=
    - gip_sym v 1 d + quad_form A d.
  Definition sym_dispersion (advect_on_diffusion : bool) (xi : list K) (d : list K) : K :=
    if advect_on_diffusion then gip_sym xi 1 d * laplace_sym 2 d else gip_sym xi 3 d.
  Definition sym_hyper_diffusion (diffuse_on_diffuse : bool) (mu : K) (d : list K) : K :=
    if diffuse_on_diffuse then - mu * laplace_sym 2 d * laplace_sym 2 d else - mu * laplace_sym 4 d.

  (* ---- semi-linear steppers ---- *)
  Definition sym_burgers (nu : K) (d : list K) : K := nu * laplace_sym 2 d.
  Definition ones (d : list K) : list K := map (fun _ => 1) d.
  Definition sym_kdv (advect_over_diffuse diffuse_over_diffuse : bool) (nu xi mu : K) (d : list K) : K :=
    let lap := laplace_sym 2 d in
    let vel := map (fun o => xi * o) (ones d) in
    nu * lap
    + (if advect_over_diffuse then - gip_sym vel 1 d * lap else - gip_sym vel 3 d)
    + (if diffuse_over_diffuse then - mu * lap * lap else - mu * laplace_sym 4 d).
  Definition sym_ks (s2 s4 : K) (d : list K) : K := - s2 * laplace_sym 2 d - s4 * laplace_sym 4 d.
  Definition sym_navier_stokes (nu drag : K) (d : list K) : K := nu * laplace_sym 2 d + drag * laplace_sym 0 d.
  Definition sym_allen_cahn (nu c1 : K) (d : list K) : K := nu * laplace_sym 2 d + c1.
  Definition sym_fisher (nu r : K) (d : list K) : K := nu * laplace_sym 2 d + r.
  Definition sym_cahn_hilliard (nu gamma c1 : K) (d : list K) : K :=
    nu * laplace_sym 2 d * (c1 - gamma * laplace_sym 2 d).
  Definition sym_gray_scott (nu1 nu2 : K) (channel : nat) (d : list K) : K :=
    (match channel with O => nu1 | _ => nu2 end) * laplace_sym 2 d.
  Definition sym_swift_hohenberg (r kc : K) (d : list K) : K :=
    r - fpow (kc + laplace_sym 2 d) 2.
End Symbols.
Arguments map2 {A B C} f l1 l2. Arguments imap {A B} f l. Arguments imap_from {A B} s f l.
