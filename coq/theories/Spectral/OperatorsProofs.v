From Coq Require Import ZArith QArith List Bool Field Ring Lia.
From EXV Require Import Base.Scalar Base.FieldLemmas Base.Cplx Spectral.Symbols Spectral.Operators.
Import ListNotations.
Local Open Scope fld_scope.

Section OperatorProofs.
  Variable F : FieldT.
  Add Field Ff : (fth F).
  Ltac dims d H := destruct d as [|?x [|?y [|?z [|]]]]; cbn [length] in H; try lia; clear H.

  (* ---- Poisson ---- *)
  Theorem poisson_solves (lam f : F) :
    (lam <> 0 -> lam * poisson_mode F lam f = - f) /\ (lam = 0 -> poisson_mode F lam f = 0).
  Proof.
    unfold poisson_mode. split; intros H.
    - rewrite (proj2 (feqb_false F lam 0) H). field. exact H.
    - rewrite (proj2 (feqb_ok F lam 0) H). ring.
  Qed.

  (* ---- analytic symbols: with d_c = ii * kappa_c, ii^2 = -1 ---- *)
  Variable ii : F.
  Hypothesis ii_sq : ii * ii = - (1).
  Definition dk (kap : list F) : list F := map (fun x => ii * x) kap.

  Lemma pow_ii_even (x : F) n : fpow (ii * x) (2 * n) = fpow (- (1)) n * fpow x (2 * n).
  Proof.
    rewrite fpow_mul_base. f_equal. rewrite fpow_mul. f_equal. cbn [fpow]. rewrite <- ii_sq. ring.
  Qed.

  (* Laplace-type operator of even order 2n: sum_c (i kappa_c)^(2n) = (-1)^n sum_c kappa_c^(2n) *)
  Theorem laplace_symbol n (kap : list F) : (0 < n)%nat ->
    laplace_sym F (2 * n) (dk kap) = fpow (- (1)) n * fsum (map (fun x => fpow x (2 * n)) kap).
  Proof.
    intros Hn. unfold laplace_sym, dk. destruct (2 * n)%nat as [|m] eqn:E; [lia|]. rewrite <- E.
    rewrite map_map. rewrite <- fsum_map_scal. apply fsum_map_ext. intros x _. apply pow_ii_even.
  Qed.

  (* gradient inner product of odd order 2n+1: sum_c v_c (i kappa_c)^(2n+1) = ii (-1)^n sum_c v_c kappa_c^(2n+1) *)
  Theorem gip_symbol n (v kap : list F) :
    gip_sym F v (2 * n + 1) (dk kap) = ii * fpow (- (1)) n * fsum (map2 (fun vc x => vc * fpow x (2 * n + 1)) v kap).
  Proof.
    unfold gip_sym, dk. revert kap. induction v as [|vc v IH]; intros [|x kap]; cbn [map map2 fsum]; try ring.
    rewrite IH. rewrite Nat.add_comm. cbn [Nat.add fpow]. rewrite pow_ii_even. ring.
  Qed.

  (* ---- Leray projection / make_incompressible, D = 2, 3 ---- *)
  Variable d : list F.
  Hypothesis Hd : (2 <= length d <= 3)%nat.
  Ltac crunch := unfold leray_mode, make_incompressible_mode, divm, lapm; cbn [map map2 fsum length].

  Lemma lap_case : (lapm F d = 0) \/ (lapm F d <> 0).
  Proof. destruct (feq_dec F (lapm F d) 0); [left|right]; assumption. Qed.

  (* the projected field is divergence free wherever the Laplace symbol does not vanish (every mode but k = 0) *)
  Theorem leray_div_free (u : list F) : length u = length d -> lapm F d <> 0 -> divm F d (leray_mode F d u) = 0.
  Proof.
    intros Hl Hn. unfold leray_mode. rewrite (proj2 (feqb_false F _ 0) Hn). cbv zeta. revert Hn.
    dims d Hd; destruct u as [|u1 [|u2 [|u3 [|]]]]; cbn [length] in Hl; try lia; crunch; intros Hn; field; (intro E; apply Hn; (etransitivity; [|exact E]); ring).
  Qed.

  (* at a mode with vanishing Laplace symbol (the mean mode) both projections are the identity *)
  Theorem leray_mean_mode (u : list F) : length u = length d -> lapm F d = 0 -> leray_mode F d u = u.
  Proof.
    intros Hl Hz. unfold leray_mode. rewrite (proj2 (feqb_ok F _ 0) Hz). cbv zeta. revert Hz.
    dims d Hd; destruct u as [|u1 [|u2 [|u3 [|]]]]; cbn [length] in Hl; try lia; crunch; intros Hz;
      repeat (f_equal; try ring).
  Qed.

  (* divergence-free fields are left unchanged *)
  Theorem leray_fixes_div_free (u : list F) : length u = length d -> divm F d u = 0 -> leray_mode F d u = u.
  Proof.
    intros Hl Hz. unfold leray_mode. rewrite Hz. cbv zeta.
    dims d Hd; destruct u as [|u1 [|u2 [|u3 [|]]]]; cbn [length] in Hl; try lia; cbn [map2];
      repeat (f_equal; try ring).
  Qed.

  Lemma leray_length (u : list F) : length u = length d -> length (leray_mode F d u) = length d.
  Proof.
    intros Hl. unfold leray_mode. cbv zeta.
    dims d Hd; destruct u as [|u1 [|u2 [|u3 [|]]]]; cbn [length] in Hl; try lia; reflexivity.
  Qed.

  (* idempotent *)
  Theorem leray_idempotent (u : list F) : length u = length d -> leray_mode F d (leray_mode F d u) = leray_mode F d u.
  Proof.
    intros Hl. destruct lap_case as [Hz|Hn].
    - rewrite (leray_mean_mode u Hl Hz). apply leray_mean_mode; assumption.
    - apply leray_fixes_div_free; [apply leray_length; exact Hl | apply leray_div_free; assumption].
  Qed.

  (* the physical-space routine make_incompressible computes the same projection, at every mode.
     [real_lap]: the Laplace symbol vanishes only where every d_c vanishes (true for d = i*kappa with real kappa:
     -sum kappa_c^2 = 0 forces kappa = 0 in a formally real field; see lap_zero_real below) *)
  Theorem make_incompressible_eq_leray (u : list F) : length u = length d ->
    (lapm F d = 0 -> Forall (fun x => x = 0) d) ->
    make_incompressible_mode F d u = leray_mode F d u.
  Proof.
    intros Hl HR. unfold make_incompressible_mode, leray_mode. destruct (oeqb (lapm F d) 0) eqn:E; cbv zeta.
    - apply feqb_ok in E. specialize (HR E). revert HR.
      dims d Hd; destruct u as [|u1 [|u2 [|u3 [|]]]]; cbn [length] in Hl; try lia; intros HR;
        repeat match goal with H : Forall _ (_ :: _) |- _ => inversion H; clear H; subst end;
        cbn [map2]; repeat (f_equal; try ring).
    - apply feqb_false in E. revert E.
      dims d Hd; destruct u as [|u1 [|u2 [|u3 [|]]]]; cbn [length] in Hl; try lia; crunch; intros E;
        repeat (f_equal; try (field; (intro E'; apply E; (etransitivity; [|exact E']); ring))).
  Qed.
End OperatorProofs.
