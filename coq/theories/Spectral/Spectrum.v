(* get_spectrum (exponax/_spectral.py): per stored mode the quantity
     amplitude: |u_hat| / reconstruction scaling;   power: 0.5 * (|u_hat| / reconstruction) * (|u_hat| / norm_compensation)
   and for D >= 2 the radial binning: bin b = 0..N/2 collects the stored modes with b - 1/2 <= |k| < b + 1/2 (sum or mean).
   The comparison with the float norm is modelled by the equivalent integer criterion on 4 |k|^2 (bin_margin shows the float
   comparison can never sit on a bin boundary).  No proofs in this file. *)
From Coq Require Import ZArith QArith List Bool.
From EXV Require Import Base.Scalar Layout.Freq.
Import ListNotations.
Local Open Scope Z_scope.

Definition in_bin (b : Z) (k : list Z) : bool :=
  let n4 := 4 * norm2 k in
  ((2 * b - 1 <=? 0) || ((2 * b - 1) * (2 * b - 1) <=? n4)) && (n4 <? (2 * b + 1) * (2 * b + 1)).
(* exponent of 2 in the reconstruction scaling at a stored mode: 1 unless the last-axis wavenumber is 0 or the even-N Nyquist *)
Definition recon_halving (N : Z) (k : list Z) : Z := if axis_plain N (last k 0) true then 0 else 1.

Section SpectrumK.
  Variable K : Ops.
  Local Open Scope fld_scope.
  (* a = |u_hat k|; ND = N^D *)
  Definition recon_scale (N : Z) (ND : K) (k : list Z) : K := if axis_plain N (last k 0%Z) true then ND else ND / fz 2.
  Definition amplitude_q (N : Z) (ND : K) (k : list Z) (a : K) : K := a / recon_scale N ND k.
  Definition power_q (N : Z) (ND : K) (k : list Z) (a : K) : K := (1 / fz 2) * (a / recon_scale N ND k) * (a / ND).
  (* radial binning over the stored modes (list of (wavenumber vector, quantity)) *)
  Definition bin_sum (b : Z) (qs : list (list Z * K)) : K :=
    fsum (map (fun p => if in_bin b (fst p) then snd p else 0) qs).
  Definition bin_count (b : Z) (qs : list (list Z * K)) : Z :=
    fold_right Z.add 0%Z (map (fun p => if in_bin b (fst p) then 1%Z else 0%Z) qs).
End SpectrumK.
