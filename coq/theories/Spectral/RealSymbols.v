(* Facts that need the base field to be formally real: with real wavenumbers kappa, d = i*kappa,
   the Laplace symbol -sum kappa_c^2 vanishes only at kappa = 0 (so the guarded inverses act only at the mean mode). *)
From Coq Require Import ZArith QArith Qcanon List Bool Field Ring Lia.
From EXV Require Import Base.Scalar Base.FieldLemmas Base.Cplx Spectral.Symbols Spectral.Operators.
Import ListNotations.
Local Open Scope fld_scope.

Definition FormallyRealL (F : FieldT) : Prop :=
  forall l : list F, fsum (map (fun x => x * x) l) = 0 -> Forall (fun x => x = 0) l.

Section RealSymbols.
  Variable F : FieldT.
  Hypothesis FR : FormallyRealL F.
  Add Field Ff : (fth F).

  Definition dreal (kap : list F) : list (cx F) := map (fun x => cmul ci (cofr x)) kap.

  Lemma lapm_dreal (kap : list F) :
    lapm (COps F) (dreal kap) = cofr (- fsum (map (fun x => x * x) kap)).
  Proof.
    unfold lapm, dreal. induction kap as [|x kap IH]; cbn [map fsum].
    - apply cx_ext; cbn; ring.
    - rewrite IH. apply cx_ext; cbn; ring.
  Qed.

  Theorem lap_zero_real (kap : list F) :
    lapm (COps F) (dreal kap) = @o0 (COps F) -> Forall (fun x => x = @o0 (COps F)) (dreal kap).
  Proof.
    rewrite lapm_dreal. intros H. apply (f_equal re) in H. cbn in H.
    assert (Hs : fsum (map (fun x => x * x) kap) = 0) by (transitivity (- - fsum (map (fun x => x * x) kap)); [ring | rewrite H; ring]).
    apply FR in Hs. unfold dreal. clear H. induction Hs as [|x kap Hx Hs IH]; cbn [map]; [constructor|].
    constructor; [|exact IH]. subst x. apply cx_ext; cbn; ring.
  Qed.

  Theorem lap_zero_iff (kap : list F) :
    lapm (COps F) (dreal kap) = @o0 (COps F) <-> Forall (fun x => x = 0) kap.
  Proof.
    split.
    - rewrite lapm_dreal. intros H. apply (f_equal re) in H. cbn in H. apply FR.
      transitivity (- - fsum (map (fun x => x * x) kap)); [ring | rewrite H; ring].
    - intros H. rewrite lapm_dreal. apply cx_ext; cbn; [|reflexivity].
      induction H as [|x kap Hx H IH]; cbn [map fsum]; [ring|]. subst x.
      transitivity (- fsum (map (fun x => x * x) kap)); [ring | exact IH].
  Qed.
End RealSymbols.

(* the rationals are formally real (list form) *)
Fixpoint qsq (l : list Qc) : Q := match l with [] => 0%Q | y :: m => (this y * this y + qsq m)%Q end.

Lemma qsq_nonneg l : (0 <= qsq l)%Q.
Proof.
  induction l as [|y m IH]; cbn [qsq]; [apply Qle_refl|].
  setoid_replace 0%Q with (0 + 0)%Q by ring. apply Qplus_le_compat; [|exact IH].
  destruct (this y) as [a b]. unfold Qle, Qmult. cbn. nia.
Qed.

Lemma fsum_sq_this (l : list Qc) : (this (@fsum QcOps (map (fun y => Qcmult y y) l)) == qsq l)%Q.
Proof.
  induction l as [|y m IH]; cbn [map fsum qsq]; [reflexivity|].
  change (this (Qcplus (Qcmult y y) (@fsum QcOps (map (fun y0 => Qcmult y0 y0) m))) == this y * this y + qsq m)%Q.
  unfold Qcplus, Qcmult, Q2Qc. cbn [this]. rewrite !Qred_correct. rewrite IH. reflexivity.
Qed.

Lemma Qc_formally_real_list : FormallyRealL QcField.
Proof.
  intros l H. change (@fsum QcOps (map (fun y => Qcmult y y) l) = 0%Qc) in H.
  assert (Hq : (qsq l == 0)%Q) by (rewrite <- fsum_sq_this, H; reflexivity). clear H.
  induction l as [|y m IH]; [constructor|]. cbn [qsq] in Hq.
  pose proof (qsq_nonneg m) as Hm. pose proof (qsq_nonneg [y]) as Hy. cbn [qsq] in Hy.
  assert (Hy0 : (this y * this y == 0)%Q).
  { apply Qle_antisym.
    - rewrite <- Hq. setoid_replace (this y * this y)%Q with (this y * this y + 0)%Q at 1 by ring.
      apply Qplus_le_compat; [apply Qle_refl | exact Hm].
    - setoid_replace (this y * this y)%Q with (this y * this y + 0)%Q by ring. exact Hy. }
  constructor.
  - apply Qc_is_canon. cbn. destruct (this y) as [a b]. unfold Qeq, Qmult in *. cbn in *. nia.
  - apply IH. rewrite Hy0 in Hq. rewrite <- Hq. ring.
Qed.
